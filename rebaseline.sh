#!/bin/bash
# Re-record the baseline of discharged obligations for every claimed property (after a reviewed contract or engine change).
# Never run by a check.
cd "$(dirname "$0")"
props="$@"
[ -z "$props" ] && props=$(python3 -c "import json;print(' '.join(sorted(set(c['property_id'] for c in json.load(open('MANIFEST.json'))['checks']))))")
for p in $props; do
  bin/cedarvc check -prop $p -write-baseline 2>&1 | tail -1
done
