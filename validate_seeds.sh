#!/bin/bash
# Confirms each seeded change independently: on a scratch worktree of the pinned commit the change builds,
# the whole existing suite passes, the demo fails with the change and passes without. Writes seeded/<id>/<n>/confirmed.json
cd /verif
export PATH=/opt/veriftools/go1.26.8/bin:$PATH GOFLAGS=-mod=mod GOPROXY=off GOSUMDB=off GOTOOLCHAIN=local
BASE=e3dad1d
for dir in "$@"; do
  pf=""; for c in patch.diff patch.missed.diff patch.neutralised.diff; do [ -z "$pf" ] && [ -f "$dir/$c" ] && pf="$dir/$c"; done
  [ -n "$pf" ] || continue; [ -f "$dir/patch.orig.diff" ] && pf="$dir/patch.orig.diff"
  [ -f "$dir/confirmed.json" ] && continue
  BASE=e3dad1d; [ -f "$dir/base" ] && BASE=$(cat "$dir/base")
  wt=$(mktemp -d /tmp/cedarvc-seedwt-XXXXXX); rmdir $wt
  git -C /repo worktree add -q --detach $wt $BASE || continue
  pkgdir=$(python3 -c "import json,sys; print(json.load(open('$dir/meta.json')).get('demo_pkg_dir','').strip('./'))" 2>/dev/null)
  demo=$(ls $dir/demo*_test.go 2>/dev/null | head -1)
  run=$(python3 -c "import json,re; m=json.load(open('$dir/meta.json')); r=m.get('demo_run',''); x=re.search(r'-run\s+(\S+)', r); print(x.group(1) if x else 'Test')" 2>/dev/null)
  res_apply=fail; res_build=fail; res_suite=fail; res_demo_with=unknown; res_demo_without=unknown
  if (cd $wt && git apply /verif/$pf); then res_apply=ok; fi
  if (cd $wt && go build ./... >/dev/null 2>&1); then res_build=ok; fi
  if (cd $wt && go test -vet=off -count=1 -timeout 20m ./... > $wt/suite.log 2>&1); then res_suite=pass; fi
  if [ -n "$demo" ] && [ -n "$pkgdir" ]; then
    cp $demo $wt/$pkgdir/zz_seed_demo_test.go
    if (cd $wt && go test -vet=off -count=1 -timeout 300s -run "$run" ./$pkgdir > $wt/demo_with.log 2>&1); then res_demo_with=pass; else res_demo_with=fail; fi
    (cd $wt && git apply -R /verif/$pf)
    if (cd $wt && go test -vet=off -count=1 -timeout 300s -run "$run" ./$pkgdir > $wt/demo_without.log 2>&1); then res_demo_without=pass; else res_demo_without=fail; fi
  fi
  python3 - <<PY
import json
json.dump({"base_commit":"$BASE","patch_applies":"$res_apply","builds":"$res_build","existing_suite_with_change":"$res_suite",
 "demo_with_change":"$res_demo_with","demo_without_change":"$res_demo_without","demo_run":"go test -vet=off -count=1 -run $run ./$pkgdir",
 "how":"validate_seeds.sh on a scratch worktree of the pinned commit"}, open("/verif/$dir/confirmed.json","w"), indent=1)
PY
  echo "$dir: apply=$res_apply build=$res_build suite=$res_suite demo_with=$res_demo_with demo_without=$res_demo_without"
  git -C /repo worktree remove --force $wt
done
