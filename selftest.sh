#!/bin/bash
# selftest: every patch under mutants/<prop>/ and seeded/<prop>/*/patch.diff must make `check <prop>` report a VIOLATION.
# Usage: ./selftest.sh [prop ...]    (default: all). Up to $SELFTEST_JOBS (default 4) changes are tried side by side,
# each on its own scratch copy under $TMPDIR (removed at once). Exit 1 if any change is MISSED.
cd "$(dirname "$0")"
props="$@"; [ -z "$props" ] && props=$(ls mutants seeded 2>/dev/null | grep '^C' | sort -u)
list=$(mktemp "${TMPDIR:-/tmp}/cedarvc-selftest-XXXXXX")
for p in $props; do
  for patch in mutants/$p/*.patch seeded/$p/*/patch.diff; do
    [ -f "$patch" ] && echo "$p $patch" >> "$list"
  done
done
out=$(xargs -a "$list" -P "${SELFTEST_JOBS:-4}" -n 2 ./selftest_one.sh 2>&1)
rm -f "$list"
echo "$out"
if echo "$out" | grep -q '^MISSED'; then exit 1; fi
exit 0
