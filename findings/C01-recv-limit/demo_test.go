package stream

// Demonstration for finding C01-recv-limit: a keyed stream accepted SendMessage(len = MaxMessageSize-15)
// but the peer's receiver rejected the frame ("message too large") because the wire length carries
// the 16-byte tag (+16-byte IV on the first frame). Place in stream/ and run:
//   go test -vet=off -count=1 -run TestFindingC01RecvLimit ./stream
import (
	"context"
	"net"
	"testing"
)

func TestFindingC01RecvLimit(t *testing.T) {
	for _, n := range []int{MaxMessageSize - 15, MaxMessageSize} {
		a, b := net.Pipe()
		sa, sb := NewStream(a), NewStream(b)
		key := make([]byte, 32)
		if err := sa.SetSymmetricKey(key); err != nil {
			t.Fatal(err)
		}
		if err := sb.SetSymmetricKey(key); err != nil {
			t.Fatal(err)
		}
		errc := make(chan error, 1)
		go func() { errc <- sa.SendMessage(context.Background(), make([]byte, n)) }()
		got, err := sb.ReceiveCompleteMessage(context.Background())
		if err != nil {
			b.Close() // unblock the sender
		}
		serr := <-errc
		if err != nil {
			t.Fatalf("receiver rejected a %d-byte message the sender accepts (sender result: %v): %v", n, serr, err)
		}
		if serr != nil {
			t.Fatalf("sender rejected %d bytes: %v", n, serr)
		}
		if len(got) != n {
			t.Fatalf("got %d bytes want %d", len(got), n)
		}
		a.Close()
		b.Close()
	}
}
