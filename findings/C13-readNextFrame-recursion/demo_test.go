package stream

// Demonstration for finding C13-readNextFrame-recursion: StartMessageRead recursed once per partial frame, so a peer
// sending empty partial frames (5 bytes each) exhausted the goroutine stack and crashed the process
// ("goroutine stack exceeds 1000000000-byte limit" is fatal, not a recoverable panic).
//   go test -vet=off -count=1 -run TestFindingC13ReadNextFrameRecursion ./stream
import (
	"context"
	"net"
	"testing"
	"time"
)

type emptyFrameConn struct{ n, max int }

func (c *emptyFrameConn) Read(p []byte) (int, error) {
	// endless stream of "00 00 00 00 00" (partial, length 0), then one complete empty frame
	for i := range p {
		if c.n >= c.max*5 && c.n%5 == 0 {
			p[i] = 1
		} else {
			p[i] = 0
		}
		c.n++
	}
	return len(p), nil
}
func (c *emptyFrameConn) Write(p []byte) (int, error)      { return len(p), nil }
func (c *emptyFrameConn) Close() error                     { return nil }
func (c *emptyFrameConn) LocalAddr() net.Addr              { return nil }
func (c *emptyFrameConn) RemoteAddr() net.Addr             { return nil }
func (c *emptyFrameConn) SetDeadline(time.Time) error      { return nil }
func (c *emptyFrameConn) SetReadDeadline(time.Time) error  { return nil }
func (c *emptyFrameConn) SetWriteDeadline(time.Time) error { return nil }

func TestFindingC13ReadNextFrameRecursion(t *testing.T) {
	// 20 million empty partial frames = 100 MB of input; the recursive reader needs > 1 GB of stack for them.
	s := NewStream(&emptyFrameConn{max: 20_000_000})
	if err := s.StartMessageRead(context.Background()); err != nil {
		t.Fatalf("unexpected error: %v", err)
	}
	if err := s.EndMessageRead(); err != nil {
		t.Fatalf("unexpected error: %v", err)
	}
}
