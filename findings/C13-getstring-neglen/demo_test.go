package message

// Demonstration for finding C13-getstring-neglen: in encrypted mode GetString / GetStringWithMaxSize read a
// peer-supplied length prefix and passed it to make() unchecked; a negative length panicked the receiver
// ("makeslice: len out of range").
//   go test -vet=off -count=1 -run TestFindingC13GetStringNegLen ./message
import (
	"context"
	"testing"
)

type negLenStream struct{ sent bool }

func (s *negLenStream) ReadFrame(ctx context.Context) ([]byte, bool, error) {
	s.sent = true
	// int64 big-endian -1 (length prefix of an "encrypted" string), end of message
	return []byte{0xff, 0xff, 0xff, 0xff, 0xff, 0xff, 0xff, 0xff}, true, nil
}
func (s *negLenStream) WriteFrame(ctx context.Context, data []byte, isEOM bool) error { return nil }
func (s *negLenStream) IsEncrypted() bool                                              { return true }

func TestFindingC13GetStringNegLen(t *testing.T) {
	for name, f := range map[string]func(m *Message) (string, error){
		"GetString":            func(m *Message) (string, error) { return m.GetString(context.Background()) },
		"GetStringWithMaxSize": func(m *Message) (string, error) { return m.GetStringWithMaxSize(context.Background(), 64) },
	} {
		func() {
			defer func() {
				if r := recover(); r != nil {
					t.Errorf("%s panicked on a negative length prefix: %v", name, r)
				}
			}()
			m := NewMessageFromStream(&negLenStream{})
			if _, err := f(m); err == nil {
				t.Errorf("%s accepted a negative length prefix without error", name)
			}
		}()
	}
}
