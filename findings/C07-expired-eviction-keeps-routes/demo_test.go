package security

import (
	"testing"
	"time"
)

// C07: "invalidating or expiring a session removes every route to it". LookupNonExpired evicts an expired session but
// left its command routes behind; a session stored later under the same id (claim and inherited sessions reuse their
// id) then became reachable through the old routes - another address, another tag.
func TestFindingC07ExpiredEvictionKeepsRoutes(t *testing.T) {
	c := NewSessionCache()
	old := NewSessionEntry("claim#1", "A:1", &KeyInfo{Data: make([]byte, 32), Protocol: "AESGCM"}, nil, time.Now().Add(-time.Minute), 0, "")
	c.Store(old)
	c.MapCommand("", "A:1", "443", "claim#1")
	if _, ok := c.LookupNonExpired("claim#1"); ok {
		t.Fatal("expired session returned")
	}
	// the same id is registered again, for another server and under a tag
	fresh := NewSessionEntry("claim#1", "B:2", &KeyInfo{Data: make([]byte, 32), Protocol: "AESGCM"}, nil, time.Now().Add(time.Hour), 0, "pool-b")
	c.Store(fresh)
	c.MapCommand("pool-b", "B:2", "443", "claim#1")
	if e, ok := c.LookupByCommand("", "A:1", "443"); ok {
		t.Fatalf("route of the expired session leads to the session registered for %s (tag %q)", e.Addr(), e.Tag())
	}
}
