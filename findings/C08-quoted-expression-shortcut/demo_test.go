package message

// Finding C08: the decoder's quoted-string shortcut accepted any value that starts and ends with a double quote and
// contains no backslash, so an expression over several string literals ("a" + "b", "a""b") was stored as ONE string
// containing the interior quotes instead of the expression the ClassAd parser assigns to that text.
// Obligation: message.tryInsertLiteral#assert-before@...Set:string_shortcut_only_for_a_lone_literal

import (
	"testing"

	"github.com/PelicanPlatform/classad/classad"
)

func TestFindingC08QuotedExpressionShortcut(t *testing.T) {
	for _, v := range []string{`"a" + "b"`, `"a""b"`} {
		got := classad.New()
		if err := parseAndInsertExpression(got, "X = "+v); err != nil {
			t.Fatalf("%s: %v", v, err)
		}
		want := classad.New()
		ex, err := classad.ParseExpr(v)
		if err != nil {
			t.Fatalf("reference parser rejects %s: %v", v, err)
		}
		want.InsertExpr("X", ex)
		if got.String() != want.String() {
			t.Errorf("value text %s: receiver reconstructed %s, the ClassAd parser assigns %s", v, got.String(), want.String())
		}
	}
}
