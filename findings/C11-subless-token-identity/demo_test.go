package security

// Finding C11: when a token's claims carry no "sub", validateTokenAndDeriveKeys kept the client ID the client itself
// had sent in step 1 as the authenticated identity (the emptiness check ran on that field, not on the token's subject).
// The holder of any validly issued token without a subject could therefore authenticate as whatever name it claimed.
// Obligation: (*security.Authenticator).validateTokenAndDeriveKeys#assert-before@computeTokenSignature#1:identity_from_token

import (
	"encoding/base64"
	"encoding/json"
	"os"
	"testing"
	"time"
)

func TestFindingC11SublessTokenIdentity(t *testing.T) {
	dir := t.TempDir()
	keyFile := dir + "/pool_signing_key"
	if err := os.WriteFile(keyFile, simple_scramble([]byte("test_pool_signing_key_32_bytes!!")), 0600); err != nil {
		t.Fatal(err)
	}
	enc := func(v any) string { b, _ := json.Marshal(v); return base64.RawURLEncoding.EncodeToString(b) }
	now := time.Now().Unix()
	token := enc(map[string]any{"alg": "HS256", "typ": "JWT", "kid": "POOL"}) + "." +
		enc(map[string]any{"iss": "test.domain", "iat": now - 10, "exp": now + 3600}) // no "sub"
	a := &Authenticator{config: &SecurityConfig{}}
	neg := &SecurityNegotiation{ServerConfig: &SecurityConfig{TokenPoolSigningKeyFile: keyFile, TrustDomain: "test.domain"}}
	authData := &TokenAuthData{ClientID: "root@test.domain", Token: token} // ClientID is what the client claimed in step 1
	err := a.validateTokenAndDeriveKeys(authData, neg)
	if err == nil {
		t.Errorf("a token with no subject was accepted and the server's authenticated identity is the client's own claim %q", authData.ClientID)
	}
}
