package security

// Demonstration for finding C06-keyless-resumption: a session negotiated without a common cipher was cached with no key
// on both sides, and a second connection naming its id was resumed: both handshakes returned success, the same session
// id, no key, an unencrypted stream. A requester that merely knows the id could ride it.
//   go test -vet=off -count=1 -run TestFindingC06KeylessResumption ./security
import (
	"context"
	"net"
	"testing"
	"time"

	"github.com/bbockelm/cedar/commands"
	"github.com/bbockelm/cedar/stream"
)

func TestFindingC06KeylessResumption(t *testing.T) {
	clientCache, serverCache := NewSessionCache(), NewSessionCache()
	mk := func() (*SecurityConfig, *SecurityConfig) {
		c := &SecurityConfig{AuthMethods: []AuthMethod{AuthClaimToBe}, Authentication: SecurityOptional,
			CryptoMethods: []CryptoMethod{}, Encryption: SecurityNever, PeerName: "<10.9.9.9:9618>", Command: commands.DC_NOP, SessionCache: clientCache}
		s := &SecurityConfig{AuthMethods: []AuthMethod{AuthClaimToBe}, Authentication: SecurityOptional,
			CryptoMethods: []CryptoMethod{}, Encryption: SecurityNever, Command: commands.DC_NOP, SessionCache: serverCache}
		return c, s
	}
	run := func() (cn, sn *SecurityNegotiation, cs, ss *stream.Stream) {
		sc, cc := net.Pipe()
		ss, cs = stream.NewStream(sc), stream.NewStream(cc)
		ss.SetPeerAddr("<10.1.1.1:1111>")
		ccfg, scfg := mk()
		done := make(chan struct{})
		go func() {
			defer close(done)
			sn, _ = NewAuthenticator(scfg, ss).ServerHandshake(context.Background())
		}()
		ctx, cancel := context.WithTimeout(context.Background(), 5*time.Second)
		defer cancel()
		cn, _ = NewAuthenticator(ccfg, cs).ClientHandshake(ctx)
		select {
		case <-done:
		case <-time.After(5 * time.Second):
			t.Fatal("server handshake timed out")
		}
		return
	}
	c1, s1, _, _ := run()
	if c1 == nil || s1 == nil {
		t.Fatalf("first handshake failed: client=%v server=%v", c1, s1)
	}
	c2, s2, cs2, ss2 := run()
	if s2 != nil && c2 != nil && s2.SessionId == s1.SessionId && s1.SessionId != "" && len(s2.GetSharedSecret()) == 0 && !ss2.IsEncrypted() && !cs2.IsEncrypted() {
		t.Fatalf("server resumed session %q although it carries no key (stream unencrypted on both ends)", s2.SessionId)
	}
	// also: the global caches must not hold a keyless entry that could be named later
	GetSessionCache().Invalidate(s1.SessionId)
}
