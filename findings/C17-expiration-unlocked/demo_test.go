package security

// Demonstration for finding C17-expiration-unlocked: SessionCache.InvalidateExpired and DebugDump read
// SessionEntry.expiration holding only the cache lock, while RenewLease writes it under the entry lock.
//   go test -race -vet=off -count=1 -run TestFindingC17ExpirationUnlocked ./security     (the race detector reports it)
import (
	"sync"
	"testing"
	"time"
)

func TestFindingC17ExpirationUnlocked(t *testing.T) {
	c := NewSessionCache()
	e := NewSessionEntry("sid", "addr", nil, nil, time.Now().Add(time.Hour), time.Hour, "")
	c.Store(e)
	var wg sync.WaitGroup
	wg.Add(3)
	go func() { defer wg.Done(); for i := 0; i < 2000; i++ { e.RenewLease() } }()
	go func() { defer wg.Done(); for i := 0; i < 2000; i++ { _ = c.DebugDump() } }()
	go func() { defer wg.Done(); for i := 0; i < 2000; i++ { _ = c.InvalidateExpired() } }()
	wg.Wait()
}
