package security

// Finding C07: a resumption attempt the server refuses with a ReturnCode other than SID_NOT_FOUND / AUTHORIZED
// returned an error but left the cached session and its command route in place, so every later handshake for that
// command tries the same doomed resumption instead of a full handshake.
// Obligation: (*security.Authenticator).resumeSession#ensures:dropped_on_failure

import (
	"context"
	"net"
	"testing"
	"time"

	"github.com/PelicanPlatform/classad/classad"
	"github.com/bbockelm/cedar/message"
	"github.com/bbockelm/cedar/stream"
)

func TestFindingC07RefusedResumptionKept(t *testing.T) {
	cache := NewSessionCache()
	key := make([]byte, 32)
	policy := classad.New()
	_ = policy.Set("CryptoMethods", "AES")
	entry := NewSessionEntry("sid-1", "<127.0.0.1:9618>", &KeyInfo{Data: key, Protocol: "AES"}, policy, time.Now().Add(time.Hour), time.Minute, "")
	cache.Store(entry)
	cache.MapCommand("", "<127.0.0.1:9618>", "60001", "sid-1")

	c, s := net.Pipe()
	defer c.Close()
	defer s.Close()
	ctx, cancel := context.WithTimeout(context.Background(), 5*time.Second)
	defer cancel()
	go func() { // a server that refuses the resumption
		st := stream.NewStream(s)
		in := message.NewMessageFromStream(st)
		if _, err := in.GetInt(ctx); err != nil {
			return
		}
		if _, err := in.GetClassAd(ctx); err != nil {
			return
		}
		ad := classad.New()
		_ = ad.Set("ReturnCode", "DENIED")
		out := message.NewMessageForStream(st)
		_ = out.PutClassAd(ctx, ad)
		_ = out.FinishMessage(ctx)
	}()
	cfg := &SecurityConfig{PeerName: "<127.0.0.1:9618>", Command: 60001, SessionCache: cache,
		AuthMethods: []AuthMethod{AuthNone}, Authentication: SecurityOptional, CryptoMethods: []CryptoMethod{CryptoAES}, Encryption: SecurityOptional}
	_, err := NewAuthenticator(cfg, stream.NewStream(c)).ClientHandshake(ctx)
	if err == nil {
		t.Fatalf("resumption unexpectedly succeeded")
	}
	if _, still := cache.LookupByCommand("", "<127.0.0.1:9618>", "60001"); still {
		t.Errorf("the server refused to resume sid-1 (%v) but the session and its command route are still cached: the next handshake will try the same resumption again instead of a full handshake", err)
	}
}
