package security

// Finding C18: the client registered the removal of the directory it created only after it had sent its result to the
// server. A server that names a valid path and then drops the connection makes the send fail, and the function
// returned on that path without removing the directory: every such connection leaves one more directory in /tmp.
// Obligation: (*security.Authenticator).performFSAuthenticationClient#ensures:created_is_removed

import (
	"context"
	"fmt"
	"net"
	"os"
	"testing"
	"time"

	"github.com/bbockelm/cedar/message"
	"github.com/bbockelm/cedar/stream"
)

func TestFindingC18DirLeftOnSendFailure(t *testing.T) {
	path := fmt.Sprintf("/tmp/FS_c18demo%d", os.Getpid()%100000)
	_ = os.Remove(path)
	defer os.Remove(path)
	c, s := net.Pipe()
	defer c.Close()
	ctx, cancel := context.WithTimeout(context.Background(), 5*time.Second)
	defer cancel()
	go func() { // a server that names a directory and hangs up
		st := stream.NewStream(s)
		m := message.NewMessageForStream(st)
		_ = m.PutString(ctx, path)
		_ = m.FinishMessage(ctx)
		s.Close()
	}()
	a := &Authenticator{config: &SecurityConfig{}, stream: stream.NewStream(c)}
	err := a.performFSAuthenticationClient(ctx, &SecurityNegotiation{IsClient: true}, false)
	if err == nil {
		t.Fatalf("exchange unexpectedly succeeded")
	}
	if _, statErr := os.Stat(path); statErr == nil {
		t.Errorf("the exchange failed (%v) and the directory %s the client created for it is still there", err, path)
	}
}
