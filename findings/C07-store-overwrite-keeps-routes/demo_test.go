package security

import (
	"testing"
	"time"
)

// C07: a session arriving under an id that is already cached for another server (a re-imported claim; a server that
// hands out an id the client already holds) replaced the entry but inherited the routes filed for the old address/tag.
func TestFindingC07StoreOverwriteKeepsRoutes(t *testing.T) {
	c := NewSessionCache()
	a := NewSessionEntry("sid-1", "A:1", &KeyInfo{Data: make([]byte, 32), Protocol: "AESGCM"}, nil, time.Now().Add(time.Hour), 0, "")
	c.Store(a)
	c.MapCommand("", "A:1", "443", "sid-1")
	b := NewSessionEntry("sid-1", "B:2", &KeyInfo{Data: make([]byte, 32), Protocol: "AESGCM"}, nil, time.Now().Add(time.Hour), 0, "pool-b")
	c.Store(b)
	c.MapCommand("pool-b", "B:2", "443", "sid-1")
	if e, ok := c.LookupByCommand("", "A:1", "443"); ok {
		t.Fatalf("route filed for A leads to the session registered for %s (tag %q)", e.Addr(), e.Tag())
	}
	// re-storing the same entry (lease renewal) keeps its routes
	c.Store(b)
	if _, ok := c.LookupByCommand("pool-b", "B:2", "443"); !ok {
		t.Fatal("re-storing the same entry lost its route")
	}
}
