package security

// Demonstration for finding C07-untagged-session: storeClientSession filed the client-side session and its command
// routes under tag "" instead of the handshake's SecurityTag, so a handshake carrying no tag (or another tag's
// fallback) could ride a session established under TAG-A, and the tagged lookup itself missed.
//   go test -vet=off -count=1 -run TestFindingC07UntaggedSession ./security
import (
	"testing"
)

func TestFindingC07UntaggedSession(t *testing.T) {
	cache := NewSessionCache()
	a := &Authenticator{config: &SecurityConfig{SecurityTag: "TAG-A", PeerName: "<10.0.0.1:9618>", Command: 60007}}
	neg := &SecurityNegotiation{SessionId: "sid-1", ValidCommands: "60007", ClientConfig: a.config}
	a.storeClientSession(neg, 60, 30, cache)
	if _, ok := cache.LookupByCommand("TAG-A", "<10.0.0.1:9618>", "60007"); !ok {
		t.Errorf("session established under TAG-A is not found under TAG-A")
	}
	if e, ok := cache.LookupByCommand("", "<10.0.0.1:9618>", "60007"); ok {
		t.Errorf("untagged handshake finds session %s that was established under TAG-A", e.ID())
	}
	if e, ok := cache.Lookup("sid-1"); ok && e.Tag() != "TAG-A" {
		t.Errorf("session entry carries tag %q, want TAG-A", e.Tag())
	}
}
