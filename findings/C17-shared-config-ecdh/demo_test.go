package security

// Finding C17 (shared configuration): NewAuthenticator stored the connection's ephemeral ECDH public key in
// the caller's SecurityConfig. Two handshakes sharing one config (client.ConnectAndAuthenticate passes
// config.Security straight through) then advertise each other's key - the first handshake derives a key
// the peer cannot match - and the unsynchronised string write is a data race.
// Run: go test -overlay <this file as security/zz_demo_test.go> -run TestFindingC17SharedConfig ./security

import (
	"encoding/base64"
	"testing"
)

func TestFindingC17SharedConfig(t *testing.T) {
	shared := &SecurityConfig{AuthMethods: []AuthMethod{AuthNone}, Authentication: SecurityOptional,
		CryptoMethods: []CryptoMethod{CryptoAES}, Encryption: SecurityRequired, Command: NoCommand}
	a1 := NewAuthenticator(shared, nil)
	a2 := NewAuthenticator(shared, nil) // a second connection sharing the configuration
	for i, a := range []*Authenticator{a1, a2} {
		ad := a.createClientSecurityAd()
		adv, _ := ad.EvaluateAttrString("ECDHPublicKey")
		own := base64.StdEncoding.EncodeToString(a.ecdhPrivKey.PublicKey().Bytes())
		if adv != own {
			t.Errorf("handshake %d advertises an ECDH public key that is not its own (another handshake's key): the peer derives a different session key", i+1)
		}
	}
	if shared.ECDHPublicKey != "" {
		t.Errorf("NewAuthenticator wrote the caller's shared SecurityConfig (unsynchronised write, racing with every concurrent handshake that shares it)")
	}
}
