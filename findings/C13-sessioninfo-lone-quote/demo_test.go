package security

// Finding C13 (claim identifier / session info text parser): an attribute whose value is a single double-quote
// character satisfies both HasPrefix(v, "\"") and HasSuffix(v, "\""), and v[1:len(v)-1] = v[1:0] panics
// (slice bounds out of range). The session info is the peer-supplied part of a claim id.
// Obligation: security.ImportSessionInfoAttributes#slice#3

import "testing"

func TestFindingC13SessionInfoLoneQuote(t *testing.T) {
	for _, in := range []string{`[A="]`, `[Encryption="YES";X="]`} {
		func() {
			defer func() {
				if r := recover(); r != nil {
					t.Errorf("ImportSessionInfoAttributes(%q) panicked: %v", in, r)
				}
			}()
			_, _ = ImportSessionInfoAttributes(in)
		}()
		func() {
			defer func() {
				if r := recover(); r != nil {
					t.Errorf("ImportSecSessionInfo(%q) panicked: %v", in, r)
				}
			}()
			_, _ = ImportSecSessionInfo(in)
		}()
	}
}
