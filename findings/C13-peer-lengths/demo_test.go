package security

// Demonstration tests for finding C13: three places where a peer-supplied length is
// handed straight to make([]byte, n):
//
//   (1) (*Authenticator).exchangeKey, client side        -- inputLen   (CEDAR int, signed 64 bit)
//   (2) (*CEDARTLSConnection).receiveMessage             -- length     (CEDAR int, signed 64 bit)
//   (3) (*SSLAuthenticator).exchangeSciToken, server side -- tokenSize (4 bytes inside the TLS tunnel)
//
// Every test drives the real function with a hostile peer on the other end of a
// net.Pipe()/stream.NewStream pair.  A test fails (without crashing the test binary)
// while the function panics on a negative length or allocates the announced size
// before a single payload byte has arrived; it passes once the function rejects an
// out-of-range length (limit assumed: 1 MiB) with an error before allocating.

import (
	"context"
	"crypto/ecdsa"
	"crypto/elliptic"
	"crypto/rand"
	"crypto/tls"
	"crypto/x509"
	"crypto/x509/pkix"
	"encoding/pem"
	"fmt"
	"io"
	"log/slog"
	"math/big"
	"net"
	"os"
	"path/filepath"
	"runtime"
	"runtime/debug"
	"testing"
	"time"

	"github.com/bbockelm/cedar/message"
	"github.com/bbockelm/cedar/stream"
)

const (
	c13HugeLen    = 268435456 // 256 MiB announced, zero bytes delivered
	c13AllocLimit = 64 << 20  // more than this allocated by the call under test == defect
)

// c13Quiet silences the library's very chatty slog output for the duration of a test.
func c13Quiet(t *testing.T) {
	t.Helper()
	old := slog.Default()
	slog.SetDefault(slog.New(slog.NewTextHandler(io.Discard, nil)))
	t.Cleanup(func() { slog.SetDefault(old) })
}

// c13Pair returns two CEDAR streams joined by an in-memory pipe, plus the raw pipe ends.
func c13Pair(t *testing.T) (local, peer *stream.Stream, localConn, peerConn net.Conn) {
	t.Helper()
	localConn, peerConn = net.Pipe()
	t.Cleanup(func() { _ = localConn.Close(); _ = peerConn.Close() })
	return stream.NewStream(localConn), stream.NewStream(peerConn), localConn, peerConn
}

// c13SendInts makes the hostile peer send one complete CEDAR message that consists of
// the given ints and nothing else (in particular: no payload bytes).
func c13SendInts(peer *stream.Stream, vals ...int) error {
	ctx, cancel := context.WithTimeout(context.Background(), 5*time.Second)
	defer cancel()
	msg := message.NewMessageForStream(peer)
	for _, v := range vals {
		if err := msg.PutInt(ctx, v); err != nil {
			return err
		}
	}
	return msg.FinishMessage(ctx)
}

// c13Guard runs fn, converting a panic into a value, and reports how many heap bytes
// were allocated (runtime.MemStats.TotalAlloc delta) while it ran.
func c13Guard(fn func() error) (err error, panicked interface{}, allocated uint64) {
	var before, after runtime.MemStats
	runtime.GC()
	runtime.ReadMemStats(&before)
	func() {
		defer func() { panicked = recover() }()
		err = fn()
	}()
	runtime.ReadMemStats(&after)
	allocated = after.TotalAlloc - before.TotalAlloc
	debug.FreeOSMemory()
	return err, panicked, allocated
}

// c13Judge applies the common verdict: no panic, an error, and no huge allocation.
func c13Judge(t *testing.T, what string, err error, panicked interface{}, allocated uint64) {
	t.Helper()
	if panicked != nil {
		t.Errorf("%s: panicked instead of returning an error: %v", what, panicked)
		return
	}
	if err == nil {
		t.Errorf("%s: returned nil error for an out-of-range peer-supplied length", what)
	}
	if allocated > c13AllocLimit {
		t.Errorf("%s: allocated %d bytes (%.0f MiB) on the strength of a length field alone; limit for this test is %d MiB (err=%v)",
			what, allocated, float64(allocated)/(1<<20), c13AllocLimit>>20, err)
	} else {
		t.Logf("%s: ok, err=%v, allocated=%d bytes", what, err, allocated)
	}
}

// ---------------------------------------------------------------------------------------
// (1) Authenticator.exchangeKey, client side
// ---------------------------------------------------------------------------------------

func TestFindingC13ExchangeKeyLength(t *testing.T) {
	c13Quiet(t)

	run := func(name string, inputLen int) {
		local, peer, _, peerConn := c13Pair(t)
		auth := NewAuthenticator(&SecurityConfig{}, local)

		// Hostile server: hasKey=1, keyLength=32, protocol=3, duration=0, inputLen=<hostile>,
		// then end-of-message with no key bytes at all.
		sendErr := make(chan error, 1)
		go func() { sendErr <- c13SendInts(peer, 1, 32, 3, 0, inputLen) }()
		// Safety net: whatever happens, the peer hangs up after ~1s so the call returns.
		hangup := time.AfterFunc(time.Second, func() { _ = peerConn.Close() })
		defer hangup.Stop()

		ctx, cancel := context.WithTimeout(context.Background(), 10*time.Second)
		defer cancel()
		err, p, n := c13Guard(func() error {
			return auth.exchangeKey(ctx, &SecurityNegotiation{IsClient: true})
		})
		if e := <-sendErr; e != nil {
			t.Logf("%s: peer send error (informational): %v", name, e)
		}
		c13Judge(t, fmt.Sprintf("exchangeKey(inputLen=%d)", inputLen), err, p, n)
	}

	run("negative", -1)
	run("huge", c13HugeLen)
}

// ---------------------------------------------------------------------------------------
// (2) CEDARTLSConnection.receiveMessage
// ---------------------------------------------------------------------------------------

func TestFindingC13SSLReceiveLength(t *testing.T) {
	c13Quiet(t)

	run := func(name string, length int) {
		local, peer, _, peerConn := c13Pair(t)
		ctx, cancel := context.WithTimeout(context.Background(), 10*time.Second)
		defer cancel()
		conn := &CEDARTLSConnection{
			ctx:           ctx,
			authenticator: NewAuthenticator(&SecurityConfig{}, local),
			isClient:      false, // a server waiting for the ClientHello: pre-authentication
			readBuffer:    make([]byte, 0),
			writeBuffer:   make([]byte, 0),
		}

		// Hostile peer: status=AuthSSLSending, length=<hostile>, no TLS bytes.
		sendErr := make(chan error, 1)
		go func() { sendErr <- c13SendInts(peer, AuthSSLSending, length) }()
		hangup := time.AfterFunc(time.Second, func() { _ = peerConn.Close() })
		defer hangup.Stop()

		err, p, n := c13Guard(func() error {
			_, e := conn.receiveMessage(ctx)
			return e
		})
		if e := <-sendErr; e != nil {
			t.Logf("%s: peer send error (informational): %v", name, e)
		}
		c13Judge(t, fmt.Sprintf("receiveMessage(length=%d)", length), err, p, n)
	}

	run("negative", -1)
	run("huge", c13HugeLen)
}

// ---------------------------------------------------------------------------------------
// (3) SSLAuthenticator.exchangeSciToken, server side
// ---------------------------------------------------------------------------------------

// c13SelfSigned writes a self-signed ECDSA certificate for "localhost" (usable both as the
// server certificate and as the client's CA file) into dir.
func c13SelfSigned(t *testing.T, dir string) (certFile, keyFile string) {
	t.Helper()
	key, err := ecdsa.GenerateKey(elliptic.P256(), rand.Reader)
	if err != nil {
		t.Fatalf("generate key: %v", err)
	}
	tmpl := &x509.Certificate{
		SerialNumber:          big.NewInt(0xC13),
		Subject:               pkix.Name{CommonName: "localhost"},
		DNSNames:              []string{"localhost"},
		NotBefore:             time.Now().Add(-time.Hour),
		NotAfter:              time.Now().Add(24 * time.Hour),
		KeyUsage:              x509.KeyUsageDigitalSignature | x509.KeyUsageCertSign,
		ExtKeyUsage:           []x509.ExtKeyUsage{x509.ExtKeyUsageServerAuth, x509.ExtKeyUsageClientAuth},
		BasicConstraintsValid: true,
		IsCA:                  true,
	}
	der, err := x509.CreateCertificate(rand.Reader, tmpl, tmpl, &key.PublicKey, key)
	if err != nil {
		t.Fatalf("create certificate: %v", err)
	}
	keyDER, err := x509.MarshalECPrivateKey(key)
	if err != nil {
		t.Fatalf("marshal key: %v", err)
	}
	certFile = filepath.Join(dir, "host.crt")
	keyFile = filepath.Join(dir, "host.key")
	if err := os.WriteFile(certFile, pem.EncodeToMemory(&pem.Block{Type: "CERTIFICATE", Bytes: der}), 0o600); err != nil {
		t.Fatal(err)
	}
	if err := os.WriteFile(keyFile, pem.EncodeToMemory(&pem.Block{Type: "EC PRIVATE KEY", Bytes: keyDER}), 0o600); err != nil {
		t.Fatal(err)
	}
	return certFile, keyFile
}

// c13Handshake is the first half of (*SSLAuthenticator).performTLSHandshake: it builds the
// CEDARTLSConnection exactly as the library does, wraps it in tls.Client/tls.Server using the
// config produced by the library's own createTLSConfig, and runs the TLS handshake through
// CEDAR messages.  (The second half, confirmHandshakeCompletion, is a plain status exchange
// that is irrelevant to the defect and is skipped.)
func c13Handshake(ctx context.Context, ssl *SSLAuthenticator, isClient bool, serverName string) error {
	cfg, err := ssl.createTLSConfig(serverName)
	if err != nil {
		return err
	}
	ssl.tlsConfig = cfg
	cedarConn := &CEDARTLSConnection{
		ctx:           ctx,
		authenticator: ssl.authenticator,
		isClient:      isClient,
		readBuffer:    make([]byte, 0),
		writeBuffer:   make([]byte, 0),
		clientStatus:  AuthSSLOK,
		serverStatus:  AuthSSLOK,
	}
	if isClient {
		ssl.tlsConn = tls.Client(cedarConn, ssl.tlsConfig)
	} else {
		ssl.tlsConn = tls.Server(cedarConn, ssl.tlsConfig)
	}
	if err := ssl.tlsConn.Handshake(); err != nil {
		return err
	}
	return cedarConn.flushBufferedData()
}

func TestFindingC13SciTokenSize(t *testing.T) {
	c13Quiet(t)

	dir := t.TempDir()
	certFile, keyFile := c13SelfSigned(t, dir)

	serverStream, clientStream, serverPipe, clientPipe := c13Pair(t)

	// NOTE: CEDARTLSConnection remembers the context it was created with and uses *that*
	// for every later tunnel read, so this is the context that bounds exchangeSciToken's
	// TLS reads -- not the one passed to exchangeSciToken.
	ctx, cancel := context.WithTimeout(context.Background(), 20*time.Second)
	defer cancel()

	serverSSL := NewSSLAuthenticator(NewAuthenticator(&SecurityConfig{CertFile: certFile, KeyFile: keyFile}, serverStream))
	clientSSL := NewSSLAuthenticator(NewAuthenticator(&SecurityConfig{CAFile: certFile}, clientStream))

	// Real TLS 1.2 handshake, tunnelled through CEDAR messages over the pipe.
	hsErr := make(chan error, 2)
	go func() {
		if err := c13Handshake(ctx, clientSSL, true, "localhost"); err != nil {
			_ = clientPipe.Close()
			hsErr <- fmt.Errorf("client: %w", err)
			return
		}
		hsErr <- nil
	}()
	go func() {
		if err := c13Handshake(ctx, serverSSL, false, "unknown"); err != nil {
			_ = serverPipe.Close()
			hsErr <- fmt.Errorf("server: %w", err)
			return
		}
		hsErr <- nil
	}()
	for i := 0; i < 2; i++ {
		if err := <-hsErr; err != nil {
			t.Fatalf("harness: TLS handshake over CEDAR failed: %v", err)
		}
	}
	if !serverSSL.tlsConn.ConnectionState().HandshakeComplete || !clientSSL.tlsConn.ConnectionState().HandshakeComplete {
		t.Fatalf("harness: TLS handshake not complete")
	}

	// Hostile client: announce a 1 GiB SciToken (size prefix 0x40000000), send nothing else.
	sendErr := make(chan error, 1)
	go func() {
		if _, err := clientSSL.tlsConn.Write([]byte{0x40, 0x00, 0x00, 0x00}); err != nil {
			sendErr <- err
			return
		}
		sendErr <- clientSSL.tlsConn.NetConn().(*CEDARTLSConnection).flushBufferedData()
	}()
	// ... and hang up a second later, so that the server's wait for the token body ends.
	hangup := time.AfterFunc(time.Second, func() { _ = clientPipe.Close() })
	defer hangup.Stop()

	var user string
	err, p, n := c13Guard(func() error {
		var e error
		user, e = serverSSL.exchangeSciToken(ctx, &SecurityNegotiation{IsClient: false}, "")
		return e
	})
	if e := <-sendErr; e != nil {
		t.Fatalf("harness: client could not send the size prefix: %v", e)
	}
	if user != "" {
		t.Errorf("exchangeSciToken authenticated %q without a token", user)
	}
	c13Judge(t, "exchangeSciToken(server, size prefix 0x40000000 = 1 GiB, no token bytes)", err, p, n)
}
