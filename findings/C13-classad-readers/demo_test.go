package message

// Demonstrations for three C13 findings in the ClassAd readers:
//  (a) the size-capped reader (used for every handshake ad) read the put_secret field after a "ZKM" marker with the
//      UNCAPPED GetString, so a peer could make it buffer and return a value far beyond the cap;
//  (b) GetClassAdRawBody and (c) SkipClassAdRaw looped for a peer-chosen expression count even after the message had
//      ended (GetString/SkipString return success at end of message), spinning -- and for (b) growing a buffer --
//      out of all proportion to the 20 bytes received.
//   go test -vet=off -count=1 -run TestFindingC13ClassAdReaders ./message
import (
	"context"
	"encoding/binary"
	"testing"
	"time"
)

type scriptedStream struct {
	frames [][]byte
	i      int
}

func (s *scriptedStream) ReadFrame(ctx context.Context) ([]byte, bool, error) {
	f := s.frames[s.i]
	s.i++
	return f, s.i == len(s.frames), nil
}
func (s *scriptedStream) WriteFrame(ctx context.Context, data []byte, isEOM bool) error { return nil }
func (s *scriptedStream) IsEncrypted() bool                                              { return false }

func be64(v int64) []byte { b := make([]byte, 8); binary.BigEndian.PutUint64(b, uint64(v)); return b }

func TestFindingC13ClassAdReaders(t *testing.T) {
	t.Run("capped_reader_uncapped_secret", func(t *testing.T) {
		// marker, then an 8 MiB secret delivered as 128 frames of 64 KiB: a 4 KiB-capped reader must stop at the cap
		frames := [][]byte{append(be64(1), []byte("ZKM\x00A = \"")...)}
		chunk := make([]byte, 64<<10)
		for i := range chunk {
			chunk[i] = 'x'
		}
		for i := 0; i < 128; i++ {
			frames = append(frames, chunk)
		}
		frames = append(frames, []byte("\"\x00\x00\x00"))
		st := &scriptedStream{frames: frames}
		m := NewMessageFromStream(st)
		_, err := m.GetClassAdWithMaxSize(context.Background(), 4096)
		if err == nil {
			t.Errorf("4 KiB-capped reader accepted an ad with an 8 MiB secret value")
		}
		if st.i > 3 {
			t.Errorf("4 KiB-capped reader pulled %d frames (%d KiB) of a secret value before giving up", st.i, (st.i-1)*64)
		}
	})
	for name, f := range map[string]func(m *Message) error{
		"raw_body_spins_after_eom": func(m *Message) error { _, err := m.GetClassAdRaw(context.Background()); return err },
		"skip_spins_after_eom":     func(m *Message) error { return m.SkipClassAdRaw(context.Background()) },
	} {
		t.Run(name, func(t *testing.T) {
			payload := append(be64(1<<40), []byte("A = 1\x00")...)
			m := NewMessageFromStream(&scriptedStream{frames: [][]byte{payload}})
			done := make(chan error, 1)
			go func() { done <- f(m) }()
			select {
			case err := <-done:
				if err == nil {
					t.Errorf("truncated ad (count 2^40, one expression, end of message) accepted without error")
				}
			case <-time.After(3 * time.Second):
				t.Errorf("reader still looping 3s after a 14-byte message ended")
			}
		})
	}
}
