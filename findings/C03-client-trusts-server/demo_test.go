package security

// Demonstrations for finding C03: the client side of the security handshake
// trusts the server's answers where it must check them against its own policy.
//
// Every test drives the REAL client (NewAuthenticator(cfg, s).ClientHandshake)
// over a net.Pipe against a hand-written deviating server. The client's own
// policy marks authentication (A, B) or encryption (C) REQUIRED, so the only
// acceptable outcome is an error from ClientHandshake. Each test fails when the
// client instead reports success, and says what was reported versus what ran.

import (
	"context"
	"fmt"
	"net"
	"sync"
	"testing"
	"time"

	"github.com/PelicanPlatform/classad/classad"

	"github.com/bbockelm/cedar/commands"
	"github.com/bbockelm/cedar/message"
	"github.com/bbockelm/cedar/stream"
)

// c03RogueLog is what the deviating server observed; filled by the server
// goroutine, read by the test only after the goroutine has been joined.
type c03RogueLog struct {
	mu            sync.Mutex
	clientCommand int
	clientAuth    string // Authentication level in the client's security ad
	clientEnc     string // Encryption level in the client's security ad
	clientMethods string // AuthMethods in the client's security ad
	clientHasKey  bool   // client ad carried an ECDHPublicKey
	offeredMask   int    // bitmask the client sent in the auth round (B)
	claimedUser   string // username the client sent for CLAIMTOBE (B)
	authMessages  int    // messages exchanged in an authentication phase
	postAuthSent  bool
	err           error
}

func (l *c03RogueLog) set(f func(*c03RogueLog)) {
	l.mu.Lock()
	defer l.mu.Unlock()
	f(l)
}

// c03ServerAd builds a plausible server security ad by hand (same attributes as
// createServerSecurityAd) so the deviating server touches no package state.
func c03ServerAd(authMethods, authentication, cryptoMethods, encryption string) *classad.ClassAd {
	ad := classad.New()
	_ = ad.Set("AuthMethods", authMethods)
	_ = ad.Set("AuthMethodsList", authMethods)
	_ = ad.Set("CryptoMethods", cryptoMethods)
	_ = ad.Set("CryptoMethodsList", cryptoMethods)
	_ = ad.Set("Authentication", authentication)
	_ = ad.Set("Encryption", encryption)
	_ = ad.Set("Integrity", "NO")
	_ = ad.Set("RemoteVersion", DefaultRemoteVersion)
	_ = ad.Set("NegotiatedSession", true)
	_ = ad.Set("Enact", "YES")
	return ad
}

// c03PostAuthAd mirrors createPostAuthAd without storing anything in the
// global session cache.
func c03PostAuthAd(user string, command int) *classad.ClassAd {
	ad := classad.New()
	_ = ad.Set("ReturnCode", "AUTHORIZED")
	_ = ad.Set("Sid", "rogue:1:1:0")
	_ = ad.Set("User", user)
	_ = ad.Set("ValidCommands", fmt.Sprintf("%d", command))
	_ = ad.Set("SessionDuration", 3600)
	_ = ad.Set("SessionLease", 1800)
	return ad
}

func c03SendAd(ctx context.Context, s *stream.Stream, ad *classad.ClassAd) error {
	m := message.NewMessageForStream(s)
	if err := m.PutClassAd(ctx, ad); err != nil {
		return err
	}
	return m.FinishMessage(ctx)
}

func c03SendInt(ctx context.Context, s *stream.Stream, v int) error {
	m := message.NewMessageForStream(s)
	if err := m.PutInt(ctx, v); err != nil {
		return err
	}
	return m.FinishMessage(ctx)
}

// c03ReadClientAd performs the honest first step of the server: command int +
// client security ad out of one message.
func c03ReadClientAd(ctx context.Context, s *stream.Stream, log *c03RogueLog) (int, error) {
	m := message.NewMessageFromStream(s)
	cmd, err := m.GetInt(ctx)
	if err != nil {
		return 0, fmt.Errorf("rogue server: read command: %w", err)
	}
	if cmd != commands.DC_AUTHENTICATE {
		return 0, fmt.Errorf("rogue server: unexpected command %d", cmd)
	}
	ad, err := m.GetClassAdWithMaxSize(ctx, 4096)
	if err != nil {
		return 0, fmt.Errorf("rogue server: read client ad: %w", err)
	}
	sessionCmd := cmd
	if c, ok := ad.EvaluateAttrInt("Command"); ok {
		sessionCmd = int(c)
	}
	log.set(func(l *c03RogueLog) {
		l.clientCommand = sessionCmd
		l.clientAuth, _ = ad.EvaluateAttrString("Authentication")
		l.clientEnc, _ = ad.EvaluateAttrString("Encryption")
		l.clientMethods, _ = ad.EvaluateAttrString("AuthMethods")
		k, _ := ad.EvaluateAttrString("ECDHPublicKey")
		l.clientHasKey = k != ""
	})
	return sessionCmd, nil
}

// c03Run runs the real client against the given deviating server and returns
// the client's result plus the server's observations. It never hangs: both
// sides run under a deadline and the pipe is closed as soon as the client
// returns, which unblocks a server still waiting on the synchronous pipe.
func c03Run(t *testing.T, cfg *SecurityConfig,
	rogue func(ctx context.Context, s *stream.Stream, log *c03RogueLog) error,
) (*SecurityNegotiation, *stream.Stream, *c03RogueLog, error) {
	t.Helper()
	serverConn, clientConn := net.Pipe()
	clientStream := stream.NewStream(clientConn)
	serverStream := stream.NewStream(serverConn)

	ctx, cancel := context.WithTimeout(context.Background(), 10*time.Second)
	defer cancel()

	log := &c03RogueLog{}
	done := make(chan struct{})
	go func() {
		defer close(done)
		err := rogue(ctx, serverStream, log)
		log.set(func(l *c03RogueLog) { l.err = err })
	}()

	neg, err := NewAuthenticator(cfg, clientStream).ClientHandshake(ctx)

	_ = clientConn.Close()
	_ = serverConn.Close()
	select {
	case <-done:
	case <-time.After(10 * time.Second):
		t.Fatalf("rogue server goroutine did not finish")
	}
	log.mu.Lock()
	defer log.mu.Unlock()
	if log.err != nil {
		t.Logf("rogue server stopped with: %v", log.err)
	}
	return neg, clientStream, log, err
}

// (A) The client's policy says Authentication=REQUIRED. The server answers
// Authentication="NO", runs no authentication exchange whatsoever, and goes
// straight to the post-auth ad. The client must refuse.
func TestFindingC03ServerSaysNo(t *testing.T) {
	cfg := &SecurityConfig{
		PeerName:       "<127.0.0.1:9618?rogue=A>",
		AuthMethods:    []AuthMethod{AuthSSL},
		Authentication: SecurityRequired,
		CryptoMethods:  []CryptoMethod{CryptoAES},
		Encryption:     SecurityOptional,
		Integrity:      SecurityOptional,
		Command:        NoCommand,
		SessionCache:   NewSessionCache(),
	}

	rogue := func(ctx context.Context, s *stream.Stream, log *c03RogueLog) error {
		cmd, err := c03ReadClientAd(ctx, s, log)
		if err != nil {
			return err
		}
		// Deviation: "NO" to a client that said REQUIRED. Everything else plausible.
		if err := c03SendAd(ctx, s, c03ServerAd("SSL", "NO", "AES", "NO")); err != nil {
			return fmt.Errorf("rogue server: send security ad: %w", err)
		}
		// No authentication phase at all.
		if err := c03SendAd(ctx, s, c03PostAuthAd("admin@rogue", cmd)); err != nil {
			return fmt.Errorf("rogue server: send post-auth ad: %w", err)
		}
		log.set(func(l *c03RogueLog) { l.postAuthSent = true })
		return nil
	}

	neg, _, log, err := c03Run(t, cfg, rogue)
	if err != nil {
		t.Logf("client refused, as its REQUIRED policy demands: %v", err)
		return
	}
	t.Errorf("ClientHandshake returned SUCCESS to a client whose policy is Authentication=%s (client ad said Authentication=%q, AuthMethods=%q), "+
		"but the server answered Authentication=\"NO\" and NO authentication method ran (auth-phase messages exchanged: %d). "+
		"Client reports: negotiation.Authentication=%t NegotiatedAuth=%q User=%q",
		cfg.Authentication, log.clientAuth, log.clientMethods, log.authMessages,
		neg.Authentication, neg.NegotiatedAuth, neg.User)
}

// (B) The client's policy says Authentication=REQUIRED with AuthMethods=[SSL];
// CLAIMTOBE is not in its list and its bit is not in the bitmask it sends. The
// server answers the bitmask round with the CLAIMTOBE bit anyway and plays the
// (trivial) server half of CLAIMTOBE. The client must refuse a method it never
// offered.
func TestFindingC03UnofferedMethod(t *testing.T) {
	cfg := &SecurityConfig{
		PeerName:       "<127.0.0.1:9618?rogue=B>",
		AuthMethods:    []AuthMethod{AuthSSL},
		Authentication: SecurityRequired,
		CryptoMethods:  []CryptoMethod{CryptoAES},
		Encryption:     SecurityOptional,
		Integrity:      SecurityOptional,
		Command:        NoCommand,
		SessionCache:   NewSessionCache(),
	}

	rogue := func(ctx context.Context, s *stream.Stream, log *c03RogueLog) error {
		cmd, err := c03ReadClientAd(ctx, s, log)
		if err != nil {
			return err
		}
		// Honest-looking answer: authentication will happen, SSL is on the list.
		if err := c03SendAd(ctx, s, c03ServerAd("SSL", "YES", "AES", "NO")); err != nil {
			return fmt.Errorf("rogue server: send security ad: %w", err)
		}
		// Bitmask round: read the client's offer ...
		m := message.NewMessageFromStream(s)
		mask, err := m.GetInt(ctx)
		if err != nil {
			return fmt.Errorf("rogue server: read bitmask: %w", err)
		}
		log.set(func(l *c03RogueLog) { l.offeredMask = mask; l.authMessages++ })
		// ... deviation: select CLAIMTOBE whatever was offered.
		if err := c03SendInt(ctx, s, AuthBitmaskClaimToBe); err != nil {
			return fmt.Errorf("rogue server: send selected method: %w", err)
		}
		log.set(func(l *c03RogueLog) { l.authMessages++ })
		// Server half of CLAIMTOBE: read (1, username), acknowledge with 1.
		cm := message.NewMessageFromStream(s)
		status, err := cm.GetInt(ctx)
		if err != nil {
			return fmt.Errorf("rogue server: read CLAIMTOBE status: %w", err)
		}
		if status != 1 {
			return fmt.Errorf("rogue server: client CLAIMTOBE status %d", status)
		}
		user, err := cm.GetStringWithMaxSize(ctx, MaxUsernameSize)
		if err != nil {
			return fmt.Errorf("rogue server: read CLAIMTOBE user: %w", err)
		}
		log.set(func(l *c03RogueLog) { l.claimedUser = user; l.authMessages++ })
		if err := c03SendInt(ctx, s, 1); err != nil {
			return fmt.Errorf("rogue server: send CLAIMTOBE ack: %w", err)
		}
		// exchangeKey: hasKey = 0.
		if err := c03SendInt(ctx, s, 0); err != nil {
			return fmt.Errorf("rogue server: send empty key: %w", err)
		}
		if err := c03SendAd(ctx, s, c03PostAuthAd(user, cmd)); err != nil {
			return fmt.Errorf("rogue server: send post-auth ad: %w", err)
		}
		log.set(func(l *c03RogueLog) { l.postAuthSent = true })
		return nil
	}

	neg, _, log, err := c03Run(t, cfg, rogue)
	if err != nil {
		t.Logf("client refused (offered bitmask 0x%x, server selected 0x%x): %v", log.offeredMask, AuthBitmaskClaimToBe, err)
		return
	}
	t.Errorf("ClientHandshake returned SUCCESS to a client whose policy is Authentication=%s with AuthMethods=%v: "+
		"it offered bitmask 0x%x (CLAIMTOBE bit 0x%x not set), the server selected 0x%x, and the client ran CLAIMTOBE anyway (sent claim %q). "+
		"Client reports: negotiation.Authentication=%t NegotiatedAuth=%q -- a method the client never listed; none of its listed methods ran",
		cfg.Authentication, cfg.AuthMethods, log.offeredMask, AuthBitmaskClaimToBe, AuthBitmaskClaimToBe, log.claimedUser,
		neg.Authentication, neg.NegotiatedAuth)
}

// (C) The client's policy says Encryption=REQUIRED (AES). The server answers
// Encryption="YES", CryptoMethods="AES" but supplies no ECDHPublicKey, then
// sends the post-auth ad in the clear. No key can be derived, so the client
// must refuse rather than carry on over a plaintext stream.
func TestFindingC03NoKeyEncryption(t *testing.T) {
	cfg := &SecurityConfig{
		PeerName:       "<127.0.0.1:9618?rogue=C>",
		AuthMethods:    []AuthMethod{AuthNone},
		Authentication: SecurityOptional,
		CryptoMethods:  []CryptoMethod{CryptoAES},
		Encryption:     SecurityRequired,
		Integrity:      SecurityOptional,
		Command:        NoCommand,
		SessionCache:   NewSessionCache(),
	}

	rogue := func(ctx context.Context, s *stream.Stream, log *c03RogueLog) error {
		cmd, err := c03ReadClientAd(ctx, s, log)
		if err != nil {
			return err
		}
		// Deviation: agrees to encrypt with AES but gives no ECDHPublicKey.
		if err := c03SendAd(ctx, s, c03ServerAd("NONE", "NO", "AES", "YES")); err != nil {
			return fmt.Errorf("rogue server: send security ad: %w", err)
		}
		// Post-auth ad over the never-keyed, plaintext stream.
		if err := c03SendAd(ctx, s, c03PostAuthAd("unauthenticated@unmapped", cmd)); err != nil {
			return fmt.Errorf("rogue server: send post-auth ad: %w", err)
		}
		log.set(func(l *c03RogueLog) { l.postAuthSent = true })
		return nil
	}

	neg, clientStream, log, err := c03Run(t, cfg, rogue)
	if err != nil {
		t.Logf("client refused, as its REQUIRED policy demands: %v", err)
		return
	}
	t.Errorf("ClientHandshake returned SUCCESS to a client whose policy is Encryption=%s (client ad said Encryption=%q, sent ECDH key: %t), "+
		"but the server sent no ECDHPublicKey, no session key exists (len(sharedSecret)=%d) and the post-auth ad was accepted in plaintext. "+
		"Client reports: negotiation.Encryption=%t NegotiatedCrypto=%q; real state: stream.IsEncrypted()=%t",
		cfg.Encryption, log.clientEnc, log.clientHasKey, len(neg.GetSharedSecret()),
		neg.Encryption, neg.NegotiatedCrypto, clientStream.IsEncrypted())
}
