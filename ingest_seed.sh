#!/bin/bash
# ingest_seed.sh <prop> <n>: copies a round-3 seed from /tmp/seedout/<prop>/<n> to seeded/<prop>/<n>, records the commit it
# was written against, confirms it independently and runs the property's check against it.
cd /verif
p=$1; n=$2; src=${SRC:-/tmp/seedout}/$p/$n; dst=seeded/$p/$n
[ -f $src/patch.diff ] || { echo "no $src/patch.diff"; exit 2; }
mkdir -p $dst && cp $src/patch.diff $src/meta.json $dst/ && cp $src/*_test.go $dst/ 2>/dev/null
git -C /repo rev-parse HEAD > $dst/base
./validate_seeds.sh $dst
d=$(mktemp -d /tmp/cedarvc-mut-XXXXXX); rsync -a --exclude .git /repo/ $d/repo/
(cd $d/repo && patch -p1 -s --fuzz=3 < /verif/$dst/patch.diff) || echo "PATCH DOES NOT APPLY"
out=$(CEDAR_REPO=$d/repo CEDAR_OUT=$d/out bin/cedarvc check -prop $p 2>&1); rc=$?
if [ $rc -eq 1 ] && echo "$out" | grep -q "^VIOLATION property=$p"; then echo "CAUGHT $p/$n :: $(echo "$out" | grep 'failed obligation' | sed 's/ \[.*//' | tr '\n' ';' | cut -c1-400)"; else echo "MISSED $p/$n (exit $rc)"; echo "$out" | tail -3; fi
rm -rf $d
