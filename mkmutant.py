#!/usr/bin/env python3
"""mkmutant.py <prop> <name> <repo-relative-file> <old> <new> : writes mutants/<prop>/<name>.patch (a must-fail canary)."""
import sys, subprocess, os, tempfile
prop, name, rel, old, new = sys.argv[1:6]
src = open('/repo/' + rel).read()
assert src.count(old) == 1, f"{name}: pattern occurs {src.count(old)} times"
d = tempfile.mkdtemp()
os.makedirs(os.path.join(d, 'a', os.path.dirname(rel)), exist_ok=True)
os.makedirs(os.path.join(d, 'b', os.path.dirname(rel)), exist_ok=True)
open(os.path.join(d, 'a', rel), 'w').write(src)
open(os.path.join(d, 'b', rel), 'w').write(src.replace(old, new))
out = subprocess.run(['diff', '-u', 'a/' + rel, 'b/' + rel], cwd=d, capture_output=True, text=True).stdout
os.makedirs(f'/verif/mutants/{prop}', exist_ok=True)
open(f'/verif/mutants/{prop}/{name}.patch', 'w').write(out)
print('wrote', f'mutants/{prop}/{name}.patch')
