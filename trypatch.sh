#!/bin/bash
# trypatch.sh <prop> <patch>: applies a patch to a scratch copy of /repo and runs the property's quick check on it.
cd /verif
p=$1; patch=$(realpath $2)
d=$(mktemp -d /tmp/cedarvc-mut-XXXXXX); rsync -a --exclude .git /repo/ $d/repo/
(cd $d/repo && patch -p1 -s --fuzz=3 < $patch) || echo "PATCH DOES NOT APPLY"
out=$(CEDAR_REPO=$d/repo CEDAR_OUT=$d/out bin/cedarvc check -prop $p 2>&1); rc=$?
if [ $rc -eq 1 ] && echo "$out" | grep -q "^VIOLATION property=$p"; then echo "CAUGHT $p $2 :: $(echo "$out" | grep 'failed obligation' | sed 's/ \[.*//' | tr '\n' ';' | cut -c1-400)"; else echo "MISSED $p $2 (exit $rc)"; echo "$out" | tail -3; fi
rm -rf $d
