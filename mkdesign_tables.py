#!/usr/bin/env python3
# Fills the two generated tables of DESIGN.md (between BEGIN/END markers) from known_findings.json and a selftest log.
import json, re, sys, os
p = '/verif/DESIGN.md'
s = open(p).read()
kf = json.load(open('/verif/known_findings.json'))['findings']
rows = ['| property | fix commit | what failed on the unchanged tree | failing input / demo |', '|---|---|---|---|']
for f in kf:
    what = re.sub(r'^fixed: property=\S+ \S+ ', '', f['what'])
    rows.append('| %s | %s | %s | %s |' % (f['property'], f.get('commit', ''), what.replace('|', '/'), f.get('failing_input', '').replace('|', '/')))
ft = '<!-- BEGIN FINDINGS -->\n' + '\n'.join(rows) + '\n<!-- END FINDINGS -->'
if 'FINDINGS_TABLE' in s:
    s = s.replace('FINDINGS_TABLE', ft)
else:
    s = re.sub(r'<!-- BEGIN FINDINGS -->.*?<!-- END FINDINGS -->', lambda m: ft, s, flags=re.S)
log = sys.argv[1] if len(sys.argv) > 1 else '/tmp/selftest-all.log'
if os.path.exists(log):
    rows = ['| property | change | result | first failed obligation(s) |', '|---|---|---|---|']
    for l in open(log):
        m = re.match(r'(CAUGHT|MISSED|SKIP)\s+(C\d+)\s+(\S+)(?:\s+::\s+(.*))?', l.strip())
        if not m:
            continue
        obl = (m.group(4) or '').replace('failed obligation: ', '')
        obl = '; '.join([x.strip() for x in obl.split(';') if x.strip()][:2])
        rows.append('| %s | %s | %s | %s |' % (m.group(2), m.group(3), m.group(1).lower(), obl.replace('|', '/')[:200]))
    st = '<!-- BEGIN SELFTEST -->\n' + '\n'.join(rows) + '\n<!-- END SELFTEST -->'
    if 'SELFTEST_RESULTS' in s:
        s = s.replace('SELFTEST_RESULTS', st)
    else:
        s = re.sub(r'<!-- BEGIN SELFTEST -->.*?<!-- END SELFTEST -->', lambda m: st, s, flags=re.S)
open(p, 'w').write(s)
