#!/bin/bash
# selftest_one.sh <prop> <patch>: applies one known property-breaking change to a scratch copy of /repo and runs the
# property's check there; prints CAUGHT / MISSED / SKIP. Scratch copies live under $TMPDIR and are removed at once.
cd "$(dirname "$0")"
export PATH=/opt/veriftools/go1.26.8/bin:$PATH GOFLAGS=-mod=mod GOPROXY=off GOSUMDB=off GOTOOLCHAIN=local
p=$1; patch=$2
d=$(mktemp -d "${TMPDIR:-/tmp}/cedarvc-mut-XXXXXX")
rsync -a --exclude .git /repo/ "$d/repo/"
if ! (cd "$d/repo" && patch -p1 -s --fuzz=3 < "/verif/$patch" >/dev/null 2>&1); then
  echo "SKIP  $p $patch (does not apply)"; rm -rf "$d"; exit 0
fi
if ! (cd "$d/repo" && go build ./... >/dev/null 2>&1); then
  echo "SKIP  $p $patch (does not build)"; rm -rf "$d"; exit 0
fi
out=$(CEDAR_FAILFAST=1 CEDAR_REPO="$d/repo" CEDAR_OUT="$d/out" bin/cedarvc check -prop "$p" 2>&1); rc=$?
if [ $rc -eq 1 ] && echo "$out" | grep -q "^VIOLATION property=$p"; then
  echo "CAUGHT $p $patch :: $(echo "$out" | grep 'failed obligation' | sed 's/ \[.*//' | tr '\n' ';' | cut -c1-300)"
else
  echo "MISSED $p $patch (exit $rc)"
fi
rm -rf "$d"
