#!/bin/bash
# setup_cmd: build the verifier from files on disk only (offline, pinned go1.26.8 + x/tools v0.50.0 from the module cache).
set -e
cd "$(dirname "$0")"
export PATH=/opt/veriftools/go1.26.8/bin:$PATH GOFLAGS=-mod=mod GOPROXY=off GOSUMDB=off GOTOOLCHAIN=local
mkdir -p bin evidence replays
go build -o bin/cedarvc ./cmd/cedarvc
echo "cedarvc built"
