package main

import (
	"fmt"
	"math/big"
	"sort"
	"strings"
)

// Sort is an SMT-LIB sort written out.
type Sort string

const (
	SInt  Sort = "Int"
	SBool Sort = "Bool"
	SReal Sort = "Real"
)

func arrSort(idx, el Sort) Sort { return Sort("(Array " + string(idx) + " " + string(el) + ")") }

func (s Sort) elem() Sort {
	// (Array Int X) -> X
	str := string(s)
	if !strings.HasPrefix(str, "(Array ") {
		panic("elem of non-array sort " + str)
	}
	inner := str[len("(Array ") : len(str)-1]
	// index sort is first token or parenthesised group
	depth := 0
	for i, c := range inner {
		switch c {
		case '(':
			depth++
		case ')':
			depth--
		case ' ':
			if depth == 0 {
				return Sort(inner[i+1:])
			}
		}
	}
	panic("bad array sort " + str)
}

// Term is an SMT term with its sort.
type Term struct {
	S    string
	Sort Sort
}

func (t Term) String() string { return t.S }
func (t Term) ok() bool       { return t.S != "" }

func sym(name string) string {
	for _, c := range name {
		if !(c >= 'a' && c <= 'z' || c >= 'A' && c <= 'Z' || c >= '0' && c <= '9' || c == '_' || c == '.' || c == '$' || c == '@' || c == '!') {
			return "|" + strings.ReplaceAll(strings.ReplaceAll(name, "|", "!"), "\\", "/") + "|"
		}
	}
	if name == "" || (name[0] >= '0' && name[0] <= '9') {
		return "|" + name + "|"
	}
	return name
}

func intT(n int64) Term {
	if n < 0 {
		return Term{fmt.Sprintf("(- %d)", -n), SInt}
	}
	return Term{fmt.Sprintf("%d", n), SInt}
}

func bigT(s string) Term { // decimal string, maybe negative
	if strings.HasPrefix(s, "-") {
		return Term{"(- " + s[1:] + ")", SInt}
	}
	return Term{s, SInt}
}

func boolT(b bool) Term {
	if b {
		return Term{"true", SBool}
	}
	return Term{"false", SBool}
}

var tTrue = boolT(true)
var tFalse = boolT(false)

func app(sort Sort, op string, args ...Term) Term {
	var b strings.Builder
	b.WriteString("(")
	b.WriteString(op)
	for _, a := range args {
		b.WriteString(" ")
		b.WriteString(a.S)
	}
	b.WriteString(")")
	return Term{b.String(), sort}
}

func and(ts ...Term) Term {
	var xs []Term
	for _, t := range ts {
		if t.S == "true" {
			continue
		}
		if t.S == "false" {
			return tFalse
		}
		xs = append(xs, t)
	}
	if len(xs) == 0 {
		return tTrue
	}
	if len(xs) == 1 {
		return xs[0]
	}
	return app(SBool, "and", xs...)
}

func or(ts ...Term) Term {
	var xs []Term
	for _, t := range ts {
		if t.S == "false" {
			continue
		}
		if t.S == "true" {
			return tTrue
		}
		xs = append(xs, t)
	}
	if len(xs) == 0 {
		return tFalse
	}
	if len(xs) == 1 {
		return xs[0]
	}
	return app(SBool, "or", xs...)
}

func not(t Term) Term {
	if t.S == "true" {
		return tFalse
	}
	if t.S == "false" {
		return tTrue
	}
	return app(SBool, "not", t)
}
func implies(a, b Term) Term {
	if a.S == "true" {
		return b
	}
	if a.S == "false" || b.S == "true" {
		return tTrue
	}
	return app(SBool, "=>", a, b)
}
func eq(a, b Term) Term {
	if a.S == b.S {
		return tTrue
	}
	return app(SBool, "=", a, b)
}
func ite(c, a, b Term) Term {
	if c.S == "true" {
		return a
	}
	if c.S == "false" {
		return b
	}
	if a.S == b.S {
		return a
	}
	return app(a.Sort, "ite", c, a, b)
}
func add(a, b Term) Term {
	if a.S == "0" {
		return b
	}
	if b.S == "0" {
		return a
	}
	return app(SInt, "+", a, b)
}
func sub(a, b Term) Term {
	if b.S == "0" {
		return a
	}
	return app(SInt, "-", a, b)
}
func mul(a, b Term) Term  { return app(SInt, "*", a, b) }
func lt(a, b Term) Term   { return app(SBool, "<", a, b) }
func le(a, b Term) Term   { return app(SBool, "<=", a, b) }
func gt(a, b Term) Term   { return app(SBool, ">", a, b) }
func ge(a, b Term) Term   { return app(SBool, ">=", a, b) }
func idiv(a, b Term) Term { return app(SInt, "div", a, b) }
func imod(a, b Term) Term { return app(SInt, "mod", a, b) }
func sel(a, i Term) Term  { return app(a.Sort.elem(), "select", a, i) }
func store(a, i, v Term) Term {
	return app(a.Sort, "store", a, i, v)
}
func inRange(x Term, lo, hi string) Term { // lo <= x <= hi
	return and(le(bigT(lo), x), le(x, bigT(hi)))
}

func pow2(k uint) string {
	return new(big.Int).Lsh(big.NewInt(1), k).String()
}

// Obl is one proof obligation.
type Obl struct {
	Name   string // <pkg>.<func>#<kind>:<label>
	Kind   string // ensures, requires@call, invariant, bounds, ...
	Props  []string
	Cond   Term // path condition (reach of the block and guards)
	Goal   Term
	Pos    string
	Values []NamedTerm // terms whose model values are wanted on failure
	Fn     string
	Vac    bool // vacuity/cover query: expected SAT
	Replay string
	Extra  []Term // hypothesis instances asserted only for this obligation
	// NAsserts: how many of the function's assumptions existed when the obligation arose. Only those are given to the
	// solver: what is assumed *after* a check (facts about the result of the very operation being checked, typing facts of
	// values a later clause reads) must not help to prove it. 0 = all (cover queries, lemmas).
	NAsserts int
}

type NamedTerm struct {
	Name string
	T    Term
}

// Emitter collects declarations, definitional asserts and obligations for one function.
type Emitter struct {
	decls    []string
	asserts  []string
	declared map[string]bool
	obls     []*Obl
	n        int
	notes    []string // abstraction notes
	noteSet  map[string]bool
	sink     bool // dry-run: discard obligations
	quiet    int  // >0 inside quantifier bodies: no naming, no side assumptions
	oblNames map[string]bool
}

func newEmitter() *Emitter {
	return &Emitter{declared: map[string]bool{}, noteSet: map[string]bool{}}
}

func (e *Emitter) note(format string, a ...any) {
	s := fmt.Sprintf(format, a...)
	if !e.noteSet[s] {
		e.noteSet[s] = true
		e.notes = append(e.notes, s)
	}
}

func (e *Emitter) declare(name string, sort Sort) Term {
	q := sym(name)
	if !e.declared[q] {
		e.declared[q] = true
		e.decls = append(e.decls, fmt.Sprintf("(declare-fun %s () %s)", q, sort))
	}
	return Term{q, sort}
}

func (e *Emitter) declareFun(name string, args []Sort, res Sort) string {
	q := sym(name)
	if !e.declared[q] {
		e.declared[q] = true
		var as []string
		for _, a := range args {
			as = append(as, string(a))
		}
		e.decls = append(e.decls, fmt.Sprintf("(declare-fun %s (%s) %s)", q, strings.Join(as, " "), res))
	}
	return q
}

func (e *Emitter) fresh(prefix string, sort Sort) Term {
	e.n++
	return e.declare(fmt.Sprintf("%s!%d", prefix, e.n), sort)
}

// name gives a term a constant name (definitional equality).
func (e *Emitter) name(prefix string, t Term) Term {
	if e.quiet > 0 {
		return t
	}
	if len(t.S) < 24 || !strings.HasPrefix(t.S, "(") {
		return t
	}
	c := e.fresh(prefix, t.Sort)
	e.asserts = append(e.asserts, fmt.Sprintf("(assert (= %s %s))", c.S, t.S))
	return c
}

func (e *Emitter) assertRaw(t Term) {
	if e.quiet > 0 {
		return
	}
	if t.S == "true" {
		return
	}
	e.asserts = append(e.asserts, "(assert "+t.S+")")
}

// assume adds (=> cond fact).
func (e *Emitter) assume(cond, fact Term) {
	e.assertRaw(implies(cond, fact))
}

func (e *Emitter) oblige(o *Obl) {
	if e.sink {
		return
	}
	// obligation names are unique within a function (several back edges may check the same invariant)
	base := o.Name
	for n := 2; e.oblNames[o.Name]; n++ {
		o.Name = fmt.Sprintf("%s~%d", base, n)
	}
	if e.oblNames == nil {
		e.oblNames = map[string]bool{}
	}
	e.oblNames[o.Name] = true
	if !o.Vac {
		o.NAsserts = len(e.asserts) + 1 // +1 so that 0 keeps meaning "all"
	}
	e.obls = append(e.obls, o)
}

func (e *Emitter) prefix() string {
	var b strings.Builder
	for _, d := range e.decls {
		b.WriteString(d)
		b.WriteString("\n")
	}
	for _, a := range e.asserts {
		b.WriteString(a)
		b.WriteString("\n")
	}
	return b.String()
}

func sortedKeys[V any](m map[string]V) []string {
	ks := make([]string, 0, len(m))
	for k := range m {
		ks = append(ks, k)
	}
	sort.Strings(ks)
	return ks
}

// quietEval evaluates f with naming and side assumptions disabled (terms may contain bound variables).
func (e *Emitter) quietEval(f func() Term) Term {
	e.quiet++
	defer func() { e.quiet-- }()
	return f()
}
