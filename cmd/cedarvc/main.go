package main

import (
	"context"
	"flag"
	"fmt"
	"os"
	"path/filepath"
	"sort"
	"strings"
	"time"
)

var (
	repoDir  = "/repo"
	verifDir = "/verif"
)

func loadSpecs() (*Specs, error) {
	sp := newSpecs()
	ext, _ := filepath.Glob(filepath.Join(verifDir, "specs", "*.spec"))
	sort.Strings(ext)
	for _, f := range ext {
		if err := sp.loadSpecFile(f, true); err != nil {
			return nil, err
		}
	}
	var repoFiles []string
	filepath.Walk(repoDir, func(p string, info os.FileInfo, err error) error {
		if err == nil && !info.IsDir() && info.Name() == "verif_contracts.go" {
			repoFiles = append(repoFiles, p)
		}
		return nil
	})
	sort.Strings(repoFiles)
	for _, f := range repoFiles {
		if err := sp.loadSpecFile(f, false); err != nil {
			return nil, err
		}
	}
	return sp, nil
}

func main() {
	if len(os.Args) < 2 {
		fmt.Fprintln(os.Stderr, "usage: cedarvc <func|check|list> ...")
		os.Exit(2)
	}
	if d := os.Getenv("CEDAR_REPO"); d != "" {
		repoDir = d
	}
	if d := os.Getenv("CEDAR_VERIF"); d != "" {
		verifDir = d
	}
	switch os.Args[1] {
	case "func":
		cmdFunc(os.Args[2:])
	case "check":
		os.Exit(cmdCheck(os.Args[2:]))
	default:
		fmt.Fprintln(os.Stderr, "unknown command", os.Args[1])
		os.Exit(2)
	}
}

// cmdFunc verifies single functions by (suffix of) key; for development.
func cmdFunc(args []string) {
	fs := flag.NewFlagSet("func", flag.ExitOnError)
	timeout := fs.Int("t", 10000, "per-obligation timeout ms")
	safety := fs.Bool("safety", true, "emit safety obligations")
	dump := fs.Bool("dump", false, "keep SMT files and print path")
	verbose := fs.Bool("v", false, "verbose")
	quiet := fs.Bool("q", false, "only print obligations that did not discharge")
	propFlag := fs.String("prop", "", "slice callee postconditions for this property, as the check does")
	pkgsFlag := fs.String("pkgs", "./...", "package patterns")
	fs.Parse(args)
	specs, err := loadSpecs()
	if err != nil {
		fmt.Fprintln(os.Stderr, "spec error:", err)
		os.Exit(2)
	}
	t0 := time.Now()
	ld, err := loadRepo(repoDir, strings.Fields(*pkgsFlag))
	if err != nil {
		fmt.Fprintln(os.Stderr, "load error:", err)
		os.Exit(2)
	}
	ld.expandSweeps(specs)
	fmt.Fprintf(os.Stderr, "loaded in %.1fs, %d functions\n", time.Since(t0).Seconds(), len(ld.funcs))
	dir, _ := os.MkdirTemp("", "cedarvc-")
	if !*dump {
		defer os.RemoveAll(dir)
	}
	sem := make(chan struct{}, 16)
	for _, rf := range specs.Refinements {
		for _, pat := range fs.Args() {
			if !strings.HasPrefix(pat, "refine:") || !strings.Contains(rf.Iface, strings.TrimPrefix(pat, "refine:")) {
				continue
			}
			vc := genRefinement(ld, specs, rf)
			fmt.Printf("== %s: %d obligations\n", vc.Label, len(vc.Obls))
			if vc.GenErr != "" {
				fmt.Println("   GENERATOR ERROR:", vc.GenErr)
			}
			for _, se := range vc.SpecErrors {
				fmt.Println("   SPEC ERROR:", se)
			}
			for _, r := range solveFunc(context.Background(), vc, *timeout, dir, sem, false) {
				mark := "ok  "
				if r.Status == "failed" || r.Status == "vacuous" {
					mark = "FAIL"
				} else if r.Status == "undecided" {
					mark = "??  "
				}
				fmt.Printf("   %s %-10s %-8s %s  [%s] %v\n", mark, r.Status, r.Solver, r.Obl.Name, r.Obl.Pos, r.Answers)
			}
		}
	}
	for _, pat := range fs.Args() {
		var keys []string
		for k, fn := range ld.funcs {
			if strings.HasPrefix(pat, "file:") {
				// every top-level function declared in the file (closures are translated inside their parents)
				if fn.Parent() == nil && fn.Synthetic == "" && fn.Pos().IsValid() && strings.HasSuffix(ld.fset.Position(fn.Pos()).Filename, strings.TrimPrefix(pat, "file:")) {
					keys = append(keys, k)
				}
				continue
			}
			if k == pat || strings.HasSuffix(k, pat) {
				keys = append(keys, k)
			}
		}
		sort.Strings(keys)
		for _, k := range keys {
			fn := ld.funcs[k]
			ct := specs.Contracts[k]
			if ct == nil {
				// contract-less function: checked the way a file sweep would check it
				ct = &Contract{Key: k, Loops: map[int]*LoopSpec{}, Thin: true}
				if fn.Pkg != nil {
					ct.Pkg = fn.Pkg.Pkg.Path()
				}
			}
			vc := genFunction(ld, specs, fn, ct, GenOpts{Safety: *safety, Prop: *propFlag})
			fmt.Printf("== %s: %d obligations, %d instrs\n", vc.Label, len(vc.Obls), vc.Instrs)
			if vc.GenErr != "" {
				fmt.Println("   GENERATOR ERROR:", vc.GenErr)
			}
			seenSE := map[string]bool{}
			for _, se := range vc.SpecErrors {
				if !seenSE[se] && len(seenSE) < 8 {
					seenSE[se] = true
					fmt.Println("   SPEC ERROR:", se)
				}
			}
			if *verbose {
				for _, n := range vc.Notes {
					fmt.Println("   note:", n)
				}
			}
			res := solveFunc(context.Background(), vc, *timeout, dir, sem, false)
			for _, r := range res {
				if *quiet && (r.Status == "discharged" || r.Status == "cover-ok") {
					continue
				}
				mark := "ok  "
				if r.Status == "failed" || r.Status == "vacuous" {
					mark = "FAIL"
				} else if r.Status == "undecided" {
					mark = "??  "
				}
				fmt.Printf("   %s %-10s %-8s %s  [%s] %v\n", mark, r.Status, r.Solver, r.Obl.Name, r.Obl.Pos, r.Answers)
				if r.Status == "failed" && *verbose {
					fmt.Println("        model:", r.Model)
				}
			}
		}
	}
	if *dump {
		fmt.Println("SMT files in", dir)
	}
}
