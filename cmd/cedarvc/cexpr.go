package main

import (
	"regexp"
	"golang.org/x/tools/go/ssa"
	"fmt"
	"go/ast"
	"go/constant"
	"go/token"
	"go/types"
	"strconv"
	"strings"
)

// Env evaluates contract expressions to SMT terms in a pair of states.
type Env struct {
	exDepth int // nesting depth of existential goals being given candidate witnesses
	locals bool // identifiers may resolve to locals of the function under translation (topEnv only)
	tr       *Trans
	pre      *State
	post     *State
	useOld   bool
	vars     map[string]Val
	reach    Term
	pkg      *types.Package
	contract *Contract
	bound    int
	errs     []string
	letBusy  map[string]bool
	pol      int    // polarity of the position being evaluated: 1 positive, -1 negative, 0 unknown
	mode     int    // 0 plain; 1 goal (skolemise positive foralls); 2 hypothesis instance (bind positive foralls to instK)
	instK    Term   // index term for mode 2
	skolems  []Term // constants introduced in mode 1
	points   []Term // index terms read by the goal (mode 1)
}

var tInt = types.Typ[types.Int]
var tBool = types.Typ[types.Bool]
var tString = types.Typ[types.String]
var tNil = types.Typ[types.UntypedNil]

func (tr *Trans) newEnv(pre, post *State) *Env {
	return &Env{tr: tr, pre: pre, post: post, vars: map[string]Val{}, reach: tr.rc, pkg: tr.pkg, contract: tr.contract, letBusy: map[string]bool{}, pol: 1}
}

func (env *Env) cur() *State {
	if env.useOld {
		return env.pre
	}
	return env.post
}

func (env *Env) fail(format string, a ...any) Val {
	msg := fmt.Sprintf(format, a...)
	env.errs = append(env.errs, msg)
	env.tr.g.specErrors = append(env.tr.g.specErrors, env.tr.label+": "+msg)
	return Val{T: tBool, C: []Term{env.tr.e.fresh("specerr", SBool)}}
}

func (env *Env) evalBool(e ast.Expr) Term {
	v := env.eval(e)
	if len(v.C) != 1 || v.C[0].Sort != SBool {
		env.fail("expression %s is not boolean", exprString(e))
		return env.tr.e.fresh("specerr", SBool)
	}
	return v.C[0]
}

func exprString(e ast.Expr) string {
	var b strings.Builder
	writeExpr(&b, e)
	return b.String()
}

func writeExpr(b *strings.Builder, e ast.Expr) {
	switch x := e.(type) {
	case *ast.Ident:
		b.WriteString(x.Name)
	case *ast.BasicLit:
		b.WriteString(x.Value)
	case *ast.SelectorExpr:
		writeExpr(b, x.X)
		b.WriteString("." + x.Sel.Name)
	case *ast.CallExpr:
		writeExpr(b, x.Fun)
		b.WriteString("(")
		for i, a := range x.Args {
			if i > 0 {
				b.WriteString(", ")
			}
			writeExpr(b, a)
		}
		b.WriteString(")")
	case *ast.BinaryExpr:
		writeExpr(b, x.X)
		b.WriteString(" " + x.Op.String() + " ")
		writeExpr(b, x.Y)
	case *ast.UnaryExpr:
		b.WriteString(x.Op.String())
		writeExpr(b, x.X)
	case *ast.ParenExpr:
		b.WriteString("(")
		writeExpr(b, x.X)
		b.WriteString(")")
	case *ast.IndexExpr:
		writeExpr(b, x.X)
		b.WriteString("[")
		writeExpr(b, x.Index)
		b.WriteString("]")
	case *ast.SliceExpr:
		writeExpr(b, x.X)
		b.WriteString("[")
		if x.Low != nil {
			writeExpr(b, x.Low)
		}
		b.WriteString(":")
		if x.High != nil {
			writeExpr(b, x.High)
		}
		b.WriteString("]")
	case *ast.StarExpr:
		b.WriteString("*")
		writeExpr(b, x.X)
	default:
		fmt.Fprintf(b, "<%T>", e)
	}
}

func (env *Env) quiet(f func() Val) Val {
	env.tr.e.quiet++
	defer func() { env.tr.e.quiet-- }()
	return f()
}

func (env *Env) eval(e ast.Expr) Val {
	tr := env.tr
	switch x := e.(type) {
	case *ast.ParenExpr:
		return env.eval(x.X)
	case *ast.BasicLit:
		switch x.Kind {
		case token.INT:
			cv := constant.MakeFromLiteral(x.Value, token.INT, 0)
			return Val{T: tInt, C: []Term{bigT(cv.ExactString())}}
		case token.CHAR:
			cv := constant.MakeFromLiteral(x.Value, token.CHAR, 0)
			return Val{T: tInt, C: []Term{bigT(cv.ExactString())}}
		case token.STRING:
			s, err := strconv.Unquote(x.Value)
			if err != nil {
				return env.fail("bad string literal %s", x.Value)
			}
			return Val{T: tString, C: []Term{tr.g.strLit(tr.e, s)}, Lit: &s}
		case token.FLOAT:
			cv := constant.MakeFromLiteral(x.Value, token.FLOAT, 0)
			return tr.g.constToVal(tr.e, cv, types.Typ[types.Float64])
		}
		return env.fail("unsupported literal %s", x.Value)
	case *ast.Ident:
		return env.ident(x.Name)
	case *ast.SelectorExpr:
		if id, ok := x.X.(*ast.Ident); ok {
			if _, bound := env.vars[id.Name]; !bound {
				if p := env.findPackage(id.Name); p != nil {
					return env.pkgObject(p, x.Sel.Name)
				}
			}
		}
		base := env.eval(x.X)
		return env.selectField(base, x.Sel.Name)
	case *ast.StarExpr:
		p := env.eval(x.X)
		pt, ok := under(p.T).(*types.Pointer)
		if !ok {
			return env.fail("deref of non-pointer %s", exprString(x.X))
		}
		return env.loadVia(p, pt.Elem())
	case *ast.IndexExpr:
		return env.index(x)
	case *ast.SliceExpr:
		return env.sliceExpr(x)
	case *ast.UnaryExpr:
		if x.Op == token.AND {
			if sel, ok := x.X.(*ast.SelectorExpr); ok {
				base := env.eval(sel.X)
				return env.selectFieldAddr(base, sel.Sel.Name)
			}
			return env.fail("& applies to field selectors only")
		}
		if x.Op == token.NOT {
			env.pol = -env.pol
		}
		v := env.eval(x.X)
		if x.Op == token.NOT {
			env.pol = -env.pol
		}
		switch x.Op {
		case token.NOT:
			return Val{T: tBool, C: []Term{not(v.C[0])}}
		case token.SUB:
			if v.C[0].Sort == SReal {
				return Val{T: v.T, C: []Term{app(SReal, "-", v.C[0])}}
			}
			return Val{T: tInt, C: []Term{sub(intT(0), v.C[0])}}
		case token.ADD:
			return v
		}
		return env.fail("unsupported unary %s", x.Op)
	case *ast.BinaryExpr:
		return env.binary(x)
	case *ast.CallExpr:
		return env.callExpr(x)
	}
	return env.fail("unsupported spec expression %T", e)
}

func (env *Env) loadVia(p Val, t types.Type) Val {
	tr := env.tr
	saved := tr.st
	tr.st = env.cur()
	defer func() { tr.st = saved }()
	return tr.load(p, t)
}

func (env *Env) findPackage(name string) *types.Package {
	if env.pkg != nil {
		for _, imp := range env.pkg.Imports() {
			if imp.Name() == name {
				return imp
			}
		}
	}
	return env.tr.g.ld.pkgByName[name]
}

func (env *Env) pkgObject(p *types.Package, name string) Val {
	tr := env.tr
	obj := p.Scope().Lookup(name)
	switch o := obj.(type) {
	case *types.Const:
		return tr.g.constToVal(tr.e, o.Val(), o.Type())
	case *types.Var:
		key := tr.g.globalKey(tr.e, p.Name(), name)
		if isObjType(o.Type()) {
			r := tr.e.declare("gref$"+p.Name()+"."+name, SInt)
			return Val{T: types.NewPointer(o.Type()), C: []Term{r}}
		}
		saved := tr.st
		tr.st = env.cur()
		defer func() { tr.st = saved }()
		return tr.readCell(env.cur(), key, o.Type())
	}
	return env.fail("unknown package object %s.%s", p.Name(), name)
}

func (env *Env) ident(name string) Val {
	tr := env.tr
	switch name {
	case "nil":
		return Val{T: tNil, C: []Term{intT(0)}}
	case "true":
		return Val{T: tBool, C: []Term{tTrue}}
	case "false":
		return Val{T: tBool, C: []Term{tFalse}}
	}
	if env.useOld {
		if v, ok := env.vars["old$"+name]; ok {
			return v
		}
	}
	if v, ok := env.vars[name]; ok {
		return v
	}
	if strings.HasPrefix(name, "lastrecv_") {
		return Val{T: types.Typ[types.UnsafePointer], C: []Term{env.cur().get(tr.e, "L$lastrecv$"+strings.TrimPrefix(name, "lastrecv_"), SInt)}}
	}
	if strings.HasPrefix(name, "lastres_") {
		// what the latest call of <func> returned; usable in postconditions too. A function that was never called (on any
		// path translated so far) returned nothing one can rely on: an arbitrary value, so a claim about it has to fail.
		if v, ok := tr.lastRes[strings.TrimPrefix(name, "lastres_")]; ok {
			return v
		}
		return Val{T: types.Universe.Lookup("error").Type(), C: []Term{tr.e.fresh("nolastres", SInt)}}
	}
	switch name {
	case "calleefailed":
		// activation-local ghost: some call made so far by the function under verification returned a non-nil error
		return Val{T: tBool, C: []Term{env.cur().get(tr.e, "D$calleefailed", SBool)}}
	case "lastminted":
		// activation-local ghost: the value the most recent fmt.Errorf / errors.New of this activation returned
		return Val{T: types.Universe.Lookup("error").Type(), C: []Term{env.cur().get(tr.e, "L$lastminted", SInt)}}
	}
	if env.contract != nil {
		for _, l := range env.contract.Lets {
			if l.Name == name && !env.letBusy[name] {
				env.letBusy[name] = true
				v := env.eval(l.AST)
				env.letBusy[name] = false
				return v
			}
		}
	}
	if c, ok := tr.g.specs.Consts[name]; ok {
		return env.eval(c)
	}
	if gv, ok := tr.g.specs.Ghosts[name]; ok {
		return env.ghost(gv)
	}
	if env.locals {
		// a local variable of the function under translation, by its source name (never visible to callee contracts)
		if v, ok := tr.nameAt(name); ok {
			if x, done := tr.vals[v]; done {
				return x
			}
			if c, isConst := v.(*ssa.Const); isConst {
				return tr.constVal(c)
			}
		}
		// a local that exists in the function but has no value at this point (e.g. a postcondition evaluated at an early
		// return): an arbitrary value, so anything claimed about it there has to follow from the path condition alone
		if t := tr.localType(name); t != nil {
			return tr.freshVal(t, "undef$"+name, env.cur(), tr.rc)
		}
	}
	if env.pkg != nil {
		if obj := env.pkg.Scope().Lookup(name); obj != nil {
			return env.pkgObject(env.pkg, name)
		}
	}
	return env.fail("unknown identifier %s", name)
}

// ghost two-level maps (`ghost var name map2`): (object, key) -> Int, e.g. the attributes of ClassAd objects that live
// outside the modelled heap. In specs: name[obj][key]; as an assigns target: name[obj] (the whole row of obj).
var tGhostMap2 = types.NewMap(types.Typ[types.Int], types.NewMap(types.Typ[types.Int], types.Typ[types.Int]))
var tGhostRow = types.NewMap(types.Typ[types.Int], types.Typ[types.Int])

func ghostSort(gv *GhostVar) Sort {
	if gv.Type == "map2" {
		return arrSort(SInt, arrSort(SInt, SInt))
	}
	return comps(ghostType(gv))[0].Sort
}

// hasUnresolvable reports whether the expression has a free identifier that this environment cannot resolve
// (quantifier-bound variables, callee names of spec functions and selector field names are not free identifiers).
func (env *Env) hasUnresolvable(e ast.Expr) bool {
	tr := env.tr
	bound := map[string]bool{}
	bad := false
	var walk func(n ast.Node)
	walk = func(n ast.Node) {
		if n == nil || bad {
			return
		}
		switch x := n.(type) {
		case *ast.CallExpr:
			if id, ok := x.Fun.(*ast.Ident); ok && (id.Name == "__forall" || id.Name == "__exists") && len(x.Args) == 2 {
				if b, ok := x.Args[0].(*ast.Ident); ok {
					was := bound[b.Name]
					bound[b.Name] = true
					walk(x.Args[1])
					bound[b.Name] = was
					return
				}
			}
			// the function position is a spec function / builtin / pred name, not a variable
			for _, a := range x.Args {
				walk(a)
			}
			return
		case *ast.SelectorExpr:
			if id, ok := x.X.(*ast.Ident); ok {
				if _, isVar := env.vars[id.Name]; !isVar && env.findPackage(id.Name) != nil {
					return // pkg.Name
				}
			}
			walk(x.X)
			return
		case *ast.Ident:
			name := x.Name
			if bound[name] || name == "nil" || name == "true" || name == "false" || name == "result" || name == "self" {
				return
			}
			if _, ok := env.vars[name]; ok {
				return
			}
			if env.contract != nil {
				for _, l := range env.contract.Lets {
					if l.Name == name {
						return
					}
				}
			}
			if _, ok := tr.g.specs.Consts[name]; ok {
				return
			}
			if _, ok := tr.g.specs.Ghosts[name]; ok {
				return
			}
			if env.pkg != nil && env.pkg.Scope().Lookup(name) != nil {
				return
			}
			bad = true
			return
		case *ast.BasicLit:
			return
		}
		ast.Inspect(n, func(m ast.Node) bool {
			if m == n || m == nil {
				return true
			}
			if ex, ok := m.(ast.Expr); ok {
				walk(ex)
				return false
			}
			return true
		})
	}
	walk(e)
	return bad
}

func ghostType(gv *GhostVar) types.Type {
	switch gv.Type {
	case "map2":
		return tGhostMap2
	case "int":
		return tInt
	case "bool":
		return tBool
	case "string", "bytes":
		return tString
	}
	return tInt
}

func (env *Env) ghost(gv *GhostVar) Val {
	t := ghostType(gv)
	return Val{T: t, C: []Term{env.cur().get(env.tr.e, "G$"+gv.Name, ghostSort(gv))}}
}

func (env *Env) selectField(base Val, name string) Val {
	tr := env.tr
	t := base.T
	if p, ok := under(t).(*types.Pointer); ok {
		st, ok := under(p.Elem()).(*types.Struct)
		if !ok {
			return env.fail("selector .%s on pointer to non-struct", name)
		}
		for i := 0; i < st.NumFields(); i++ {
			if st.Field(i).Name() == name {
				if len(base.C) != 1 {
					return env.fail("selector .%s on untracked pointer", name)
				}
				saved, savedRC := tr.st, tr.rc
				tr.st, tr.rc = env.cur(), env.reach
				defer func() { tr.st, tr.rc = saved, savedRC }()
				fv := st.Field(i)
				if isObjType(fv.Type()) {
					if _, isStruct := under(fv.Type()).(*types.Struct); isStruct {
						// embedded struct: its value (use &x.f for the address)
						return tr.loadObj(env.cur(), fv.Type(), tr.g.fr(tr.e, p.Elem(), name, base.C[0]))
					}
					// embedded array: pointer to it (indexable)
					return Val{T: types.NewPointer(fv.Type()), C: []Term{tr.g.fr(tr.e, p.Elem(), name, base.C[0])}}
				}
				return tr.readField(env.cur(), p.Elem(), fv, base.C[0])
			}
		}
		// embedded promotion (one level)
		for i := 0; i < st.NumFields(); i++ {
			if st.Field(i).Embedded() {
				inner := env.selectField(base, st.Field(i).Name())
				if len(env.errs) == 0 {
					return env.selectField(inner, name)
				}
			}
		}
		return env.fail("no field %s in %s", name, p.Elem())
	}
	if st, ok := under(t).(*types.Struct); ok {
		off := 0
		for i := 0; i < st.NumFields(); i++ {
			n := ncomps(st.Field(i).Type())
			if st.Field(i).Name() == name {
				return Val{T: st.Field(i).Type(), C: base.C[off : off+n]}
			}
			off += n
		}
		return env.fail("no field %s in %s", name, t)
	}
	return env.fail("selector .%s on %s", name, t)
}

func (env *Env) index(x *ast.IndexExpr) Val {
	tr := env.tr
	b := env.eval(x.X)
	i := env.eval(x.Index)
	if env.mode == 1 && len(i.C) == 1 && i.C[0].Sort == SInt && !strings.Contains(i.C[0].S, "!q") {
		env.points = append(env.points, i.C[0])
	}
	st := env.cur()
	if b.T == types.Type(tGhostMap2) && len(b.C) == 1 && len(i.C) == 1 {
		return Val{T: tGhostRow, C: []Term{sel(b.C[0], i.C[0])}}
	}
	if b.T == types.Type(tGhostRow) && len(b.C) == 1 && len(i.C) == 1 {
		return Val{T: tInt, C: []Term{sel(b.C[0], i.C[0])}}
	}
	switch u := under(b.T).(type) {
	case *types.Slice:
		if len(b.C) != 4 {
			return env.fail("index of untracked slice")
		}
		et := u.Elem()
		if isObjType(et) {
			return env.fail("index of slice of objects not supported in specs")
		}
		v := Val{T: et}
		for _, ks := range elemKeys(et) {
			h := st.get(tr.e, ks.key, ks.sort)
			v.C = append(v.C, sel(sel(h, b.C[0]), add(b.C[1], i.C[0])))
		}
		return v
	case *types.Basic:
		if u.Info()&types.IsString != 0 {
			return Val{T: types.Typ[types.Uint8], C: []Term{tr.g.strAt(tr.e, b.C[0], i.C[0])}}
		}
	case *types.Array:
		if len(b.C) == 1 && b.C[0].Sort != SInt {
			return Val{T: u.Elem(), C: []Term{sel(b.C[0], i.C[0])}}
		}
	case *types.Pointer:
		if at, ok := under(u.Elem()).(*types.Array); ok && len(b.C) == 1 {
			ks := elemKeys(at.Elem())
			h := st.get(tr.e, ks[0].key, ks[0].sort)
			return Val{T: at.Elem(), C: []Term{sel(sel(h, b.C[0]), i.C[0])}}
		}
	case *types.Map:
		mk := mapKeys(u)
		if mk == nil || len(mk.vals) == 0 {
			return env.fail("map type not modelled in specs")
		}
		v := Val{T: u.Elem()}
		for _, ks := range mk.vals {
			hv := st.get(tr.e, ks.key, ks.sort)
			v.C = append(v.C, sel(sel(hv, b.C[0]), i.C[0]))
		}
		return v
	}
	return env.fail("unsupported index base %s", b.T)
}

func (env *Env) sliceExpr(x *ast.SliceExpr) Val {
	b := env.eval(x.X)
	lo := intT(0)
	if x.Low != nil {
		lo = env.eval(x.Low).C[0]
	}
	switch under(b.T).(type) {
	case *types.Slice:
		hi := b.C[2]
		if x.High != nil {
			hi = env.eval(x.High).C[0]
		}
		return Val{T: b.T, C: []Term{b.C[0], add(b.C[1], lo), sub(hi, lo), sub(b.C[3], lo)}}
	case *types.Pointer:
		pt := under(b.T).(*types.Pointer)
		if at, ok := under(pt.Elem()).(*types.Array); ok {
			hi := intT(at.Len())
			if x.High != nil {
				hi = env.eval(x.High).C[0]
			}
			return Val{T: types.NewSlice(at.Elem()), C: []Term{b.C[0], lo, sub(hi, lo), sub(intT(at.Len()), lo)}}
		}
	}
	return env.fail("unsupported slice expression base %s", b.T)
}

func isNilVal(v Val) bool {
	b, ok := v.T.(*types.Basic)
	return ok && b.Kind() == types.UntypedNil
}

func (env *Env) binary(x *ast.BinaryExpr) Val {
	tr := env.tr
	switch x.Op {
	case token.LAND:
		return Val{T: tBool, C: []Term{and(env.evalBool(x.X), env.evalBool(x.Y))}}
	case token.LOR:
		return Val{T: tBool, C: []Term{or(env.evalBool(x.X), env.evalBool(x.Y))}}
	}
	savedPol := env.pol
	if x.Op == token.EQL || x.Op == token.NEQ {
		env.pol = 0
	}
	a, b := env.eval(x.X), env.eval(x.Y)
	env.pol = savedPol
	if len(a.C) == 0 || len(b.C) == 0 {
		return env.fail("operand without value in %s", exprString(x))
	}
	switch x.Op {
	case token.EQL, token.NEQ:
		var r Term
		switch {
		case isNilVal(a) && isNilVal(b):
			r = tTrue
		case isNilVal(b):
			r = eq(a.C[0], intT(0))
		case isNilVal(a):
			r = eq(b.C[0], intT(0))
		case len(a.C) == 4 && len(b.C) == 4 && isSlice(a.T):
			// spec equality on slices: same backing array, offset, length and capacity
			r = and(eq(a.C[0], b.C[0]), eq(a.C[1], b.C[1]), eq(a.C[2], b.C[2]), eq(a.C[3], b.C[3]))
		default:
			t := a.T
			if isString(b.T) {
				t = b.T
			}
			saved, savedRC := tr.st, tr.rc
			tr.st, tr.rc = env.cur(), env.reach
			r = tr.equalVals(a, b, t)
			tr.st, tr.rc = saved, savedRC
		}
		if x.Op == token.NEQ {
			r = not(r)
		}
		return Val{T: tBool, C: []Term{r}}
	case token.LSS, token.LEQ, token.GTR, token.GEQ:
		op := map[token.Token]string{token.LSS: "<", token.LEQ: "<=", token.GTR: ">", token.GEQ: ">="}[x.Op]
		A, B := a.C[0], b.C[0]
		if A.Sort == SReal && B.Sort == SInt {
			B = app(SReal, "to_real", B)
		}
		if B.Sort == SReal && A.Sort == SInt {
			A = app(SReal, "to_real", A)
		}
		return Val{T: tBool, C: []Term{app(SBool, op, A, B)}}
	}
	A, B := a.C[0], b.C[0]
	if A.Sort == SReal || B.Sort == SReal {
		if A.Sort == SInt {
			A = app(SReal, "to_real", A)
		}
		if B.Sort == SInt {
			B = app(SReal, "to_real", B)
		}
		op := map[token.Token]string{token.ADD: "+", token.SUB: "-", token.MUL: "*", token.QUO: "/"}[x.Op]
		if op == "" {
			return env.fail("unsupported real operator %s", x.Op)
		}
		return Val{T: types.Typ[types.Float64], C: []Term{app(SReal, op, A, B)}}
	}
	if isString(a.T) && x.Op == token.ADD {
		saved, savedRC := tr.st, tr.rc
		tr.st, tr.rc = env.cur(), env.reach
		r := tr.strConcat(a, b)
		tr.st, tr.rc = saved, savedRC
		return Val{T: tString, C: []Term{r}}
	}
	// spec integers are mathematical
	switch x.Op {
	case token.ADD:
		return Val{T: tInt, C: []Term{add(A, B)}}
	case token.SUB:
		return Val{T: tInt, C: []Term{sub(A, B)}}
	case token.MUL:
		return Val{T: tInt, C: []Term{mul(A, B)}}
	case token.QUO:
		return Val{T: tInt, C: []Term{idiv(A, B)}} // floor division (operands expected non-negative)
	case token.REM:
		return Val{T: tInt, C: []Term{imod(A, B)}}
	case token.AND, token.OR, token.XOR, token.AND_NOT:
		if r, ok := tr.bitop(x.Op, A, B, tInt); ok {
			return Val{T: tInt, C: []Term{r}}
		}
		// two variable operands: the same uninterpreted function the code translation uses, so a spec can restate a
		// bit-level guard of the code (its arithmetic meaning is then Go's, not modelled)
		f := tr.e.declareFun("bit$"+x.Op.String(), []Sort{SInt, SInt}, SInt)
		return Val{T: tInt, C: []Term{{fmt.Sprintf("(%s %s %s)", f, A.S, B.S), SInt}}}
	case token.SHL:
		if bits, ok := constBits(B.S); ok {
			var k uint
			for _, bb := range bits {
				k |= 1 << bb
			}
			return Val{T: tInt, C: []Term{mul(A, bigT(pow2(k)))}}
		}
	case token.SHR:
		if bits, ok := constBits(B.S); ok {
			var k uint
			for _, bb := range bits {
				k |= 1 << bb
			}
			return Val{T: tInt, C: []Term{idiv(A, bigT(pow2(k)))}}
		}
	}
	return env.fail("unsupported binary operator %s", x.Op)
}

func (env *Env) callExpr(x *ast.CallExpr) Val {
	tr := env.tr
	name := ""
	switch f := x.Fun.(type) {
	case *ast.Ident:
		name = f.Name
	case *ast.SelectorExpr:
		name = exprString(f)
	case *ast.ParenExpr, *ast.StarExpr, *ast.ArrayType:
		name = ""
	}
	switch name {
	case "old":
		saved := env.useOld
		env.useOld = true
		v := env.eval(x.Args[0])
		env.useOld = saved
		return v
	case "now": // evaluate in the post state even inside old(...)
		saved := env.useOld
		env.useOld = false
		v := env.eval(x.Args[0])
		env.useOld = saved
		return v
	case "__imp":
		env.pol = -env.pol
		a := env.evalBool(x.Args[0])
		env.pol = -env.pol
		return Val{T: tBool, C: []Term{implies(a, env.evalBool(x.Args[1]))}}
	case "__forall", "__exists":
		id, ok := x.Args[0].(*ast.Ident)
		if !ok {
			return env.fail("bad quantifier variable")
		}
		if name == "__forall" && env.pol == 1 && env.mode != 0 && tr.e.quiet == 0 {
			// goal: prove the body for a fresh arbitrary index; hypothesis instance: the body at the given index
			k := env.instK
			if env.mode == 1 {
				k = tr.e.fresh("sk$"+id.Name, SInt)
				env.skolems = append(env.skolems, k)
			}
			saved, had := env.vars[id.Name]
			env.vars[id.Name] = Val{T: tInt, C: []Term{k}}
			body := env.evalBool(x.Args[1])
			if had {
				env.vars[id.Name] = saved
			} else {
				delete(env.vars, id.Name)
			}
			return Val{T: tBool, C: []Term{body}}
		}
		env.bound++
		bv := Term{fmt.Sprintf("%s!q%d_%d", id.Name, tr.id, tr.g.nextBound()), SInt}
		saved, had := env.vars[id.Name]
		env.vars[id.Name] = Val{T: tInt, C: []Term{bv}}
		body := env.quiet(func() Val { return Val{T: tBool, C: []Term{env.evalBool(x.Args[1])}} })
		if had {
			env.vars[id.Name] = saved
		} else {
			delete(env.vars, id.Name)
		}
		q := "forall"
		if name == "__exists" {
			q = "exists"
		}
		qt := Term{fmt.Sprintf("(%s ((%s Int)) %s)", q, bv.S, body.C[0].S), SBool}
		if name == "__exists" && env.pol == 1 && env.mode == 1 && tr.e.quiet == 0 && env.exDepth < 2 && len(tr.g.recentIdx) > 0 {
			// an existential goal: besides the quantified form, offer the indices the code itself used most recently as
			// candidate witnesses (each instance implies the existential, so the goal is not weakened); arithmetic in the
			// element address defeats the solvers' own trigger matching here
			env.exDepth++
			alts := []Term{qt}
			for _, c := range tr.g.recentIdx {
				saved, had := env.vars[id.Name]
				env.vars[id.Name] = Val{T: tInt, C: []Term{c}}
				alts = append(alts, env.evalBool(x.Args[1]))
				if had {
					env.vars[id.Name] = saved
				} else {
					delete(env.vars, id.Name)
				}
			}
			env.exDepth--
			return Val{T: tBool, C: []Term{or(alts...)}}
		}
		return Val{T: tBool, C: []Term{qt}}
	case "upd":
		// upd(row, key, value): a ghost-map row with one entry replaced (quantifier-free frame for map-like ghosts)
		if len(x.Args) == 3 {
			r, k, v := env.eval(x.Args[0]), env.eval(x.Args[1]), env.eval(x.Args[2])
			if r.T == types.Type(tGhostRow) && len(r.C) == 1 && len(k.C) == 1 && len(v.C) == 1 {
				val := v.C[0]
				if val.Sort == SBool {
					val = ite(val, intT(1), intT(0))
				}
				return Val{T: tGhostRow, C: []Term{store(r.C[0], k.C[0], val)}}
			}
		}
		return env.fail("upd(row, key, value) needs a ghost-map row")
	case "len":
		v := env.eval(x.Args[0])
		switch u := under(v.T).(type) {
		case *types.Slice:
			return Val{T: tInt, C: []Term{v.C[2]}}
		case *types.Basic:
			if u.Info()&types.IsString != 0 {
				return Val{T: tInt, C: []Term{tr.g.strLen(tr.e, v.C[0])}}
			}
		case *types.Array:
			return Val{T: tInt, C: []Term{intT(u.Len())}}
		case *types.Pointer:
			if at, ok := under(u.Elem()).(*types.Array); ok {
				return Val{T: tInt, C: []Term{intT(at.Len())}}
			}
		case *types.Map:
			h := env.cur().get(tr.e, mapKeys(u).length, arrSort(SInt, SInt))
			return Val{T: tInt, C: []Term{sel(h, v.C[0])}}
		}
		return env.fail("len of %s", v.T)
	case "cap":
		v := env.eval(x.Args[0])
		if isSlice(v.T) {
			return Val{T: tInt, C: []Term{v.C[3]}}
		}
		return env.fail("cap of %s", v.T)
	case "ite":
		sp := env.pol
		env.pol = 0
		c := env.evalBool(x.Args[0])
		env.pol = sp
		a, b := env.eval(x.Args[1]), env.eval(x.Args[2])
		if len(a.C) != len(b.C) {
			return env.fail("ite branches differ in shape")
		}
		out := Val{T: a.T}
		for i := range a.C {
			out.C = append(out.C, ite(c, a.C[i], b.C[i]))
		}
		return out
	case "fresh":
		// the object was allocated during the call: ref >= old watermark
		v := env.eval(x.Args[0])
		wm0 := env.pre.get(tr.e, "$wm", SInt)
		wm1 := env.post.get(tr.e, "$wm", SInt)
		return Val{T: tBool, C: []Term{and(ge(v.C[0], wm0), lt(v.C[0], wm1))}}
	case "allocated":
		v := env.eval(x.Args[0])
		wm := env.cur().get(tr.e, "$wm", SInt)
		return Val{T: tBool, C: []Term{and(gt(v.C[0], intT(0)), lt(v.C[0], wm))}}
	case "ref":
		v := env.eval(x.Args[0])
		return Val{T: tInt, C: []Term{v.C[0]}}
	case "off":
		v := env.eval(x.Args[0])
		if len(v.C) == 4 {
			return Val{T: tInt, C: []Term{v.C[1]}}
		}
		return env.fail("off of non-slice")
	case "str":
		// snapshot of a byte slice as an immutable string value
		v := env.eval(x.Args[0])
		if isString(v.T) {
			return v
		}
		if len(v.C) != 4 {
			return env.fail("str of non-slice")
		}
		et := under(v.T).(*types.Slice).Elem()
		ks := elemKeys(et)
		h := env.cur().get(tr.e, ks[0].key, ks[0].sort)
		return Val{T: tString, C: []Term{tr.g.bytesToStr(tr.e, sel(h, v.C[0]), v.C[1], v.C[2])}}
	case "has": // has(m, k): map membership
		m := env.eval(x.Args[0])
		k := env.eval(x.Args[1])
		mt, ok := under(m.T).(*types.Map)
		if !ok || mapKeys(mt) == nil {
			return env.fail("has on non-map")
		}
		mk := mapKeys(mt)
		h := env.cur().get(tr.e, mk.has, mk.hasSort)
		return Val{T: tBool, C: []Term{and(not(eq(m.C[0], intT(0))), sel(sel(h, m.C[0]), k.C[0]))}}
	case "visited":
		// visited(n, k): the n-th range-over-map loop of this function has already produced key k
		nlit, ok := x.Args[0].(*ast.BasicLit)
		if !ok {
			return env.fail("visited needs a literal loop ordinal")
		}
		k := env.eval(x.Args[1])
		key := fmt.Sprintf("L$iter$%d$%s", tr.g.topTr.id, nlit.Value)
		vis := env.cur().get(tr.e, key, arrSort(k.C[0].Sort, SBool))
		return Val{T: tBool, C: []Term{sel(vis, k.C[0])}}
	case "held":
		// held(&x.mu): the mutex is (write-)locked
		v := env.eval(x.Args[0])
		return env.lockState(v, "w")
	case "rheld":
		// rheld(&x.mu): a RWMutex is locked for reading or writing
		v := env.eval(x.Args[0])
		return env.lockState(v, "r")
	case "rcount":
		v := env.eval(x.Args[0])
		if pt, ok := under(v.T).(*types.Pointer); ok && typeKey(pt.Elem()) == "sync.RWMutex" && len(v.C) == 1 {
			hr := env.cur().get(tr.e, "lock$sync.RWMutex.r", arrSort(SInt, SInt))
			return Val{T: tInt, C: []Term{sel(hr, v.C[0])}}
		}
		return env.fail("rcount(): not a pointer to a RWMutex")
	case "boxs":
		// boxs(s): the string s as an interface value (as passed to variadic ...any parameters)
		v := env.eval(x.Args[0])
		id := tr.g.typeID(types.Typ[types.String])
		f := tr.e.declareFun(fmt.Sprintf("box$%d", id), []Sort{SInt}, SInt)
		return Val{T: types.NewInterfaceType(nil, nil), C: []Term{{fmt.Sprintf("(%s %s)", f, v.C[0].S), SInt}}}
	case "dyntype":
		v := env.eval(x.Args[0])
		return Val{T: tInt, C: []Term{tr.dynType(v.C[0])}}
	case "typeis":
		// typeis(x, "pkg.T") or "*pkg.T": dynamic type test against a named type
		v := env.eval(x.Args[0])
		lit, ok := x.Args[1].(*ast.BasicLit)
		if !ok {
			return env.fail("typeis needs a string literal")
		}
		tn, _ := strconv.Unquote(lit.Value)
		t := tr.g.ld.lookupType(tn)
		if t == nil {
			return env.fail("typeis: unknown type %s", tn)
		}
		return Val{T: tBool, C: []Term{and(not(eq(v.C[0], intT(0))), eq(tr.dynType(v.C[0]), intT(int64(tr.g.typeID(t)))))}}
	case "unbox":
		// unbox(x, "*pkg.T"): the concrete value inside interface x, typed as T (meaningful when typeis(x, T))
		v := env.eval(x.Args[0])
		lit, ok := x.Args[1].(*ast.BasicLit)
		if !ok {
			return env.fail("unbox needs a string literal")
		}
		tn, _ := strconv.Unquote(lit.Value)
		t := tr.g.ld.lookupType(tn)
		if t == nil {
			return env.fail("unbox: unknown type %s", tn)
		}
		if n := ncomps(t); n != 1 {
			return env.fail("unbox: type %s is not a single-component value", tn)
		}
		uf := tr.e.declareFun(fmt.Sprintf("unbox$%d", tr.g.typeID(t)), []Sort{SInt}, comps(t)[0].Sort)
		return Val{T: t, C: []Term{{fmt.Sprintf("(%s %s)", uf, v.C[0].S), comps(t)[0].Sort}}}
	case "int", "int64", "int32", "uint32", "uint64", "uint16", "uint8", "byte", "uint", "int16", "int8":
		v := env.eval(x.Args[0])
		var bt types.Type
		for _, b := range types.Typ {
			if b.Name() == name {
				bt = b
			}
		}
		if name == "byte" {
			bt = types.Typ[types.Uint8]
		}
		if v.C[0].Sort == SReal {
			return env.fail("real to int conversion in spec")
		}
		return Val{T: bt, C: []Term{wrapInt(v.C[0], bt)}}
	case "real":
		v := env.eval(x.Args[0])
		if v.C[0].Sort == SReal {
			return v
		}
		return Val{T: types.Typ[types.Float64], C: []Term{app(SReal, "to_real", v.C[0])}}
	case "string":
		v := env.eval(x.Args[0])
		if isString(v.T) {
			return v
		}
		return env.fail("string() conversion unsupported in spec; use str()")
	case "trunc":
		// real -> int, toward zero (Go's float-to-integer conversion)
		v := env.eval(x.Args[0])
		if v.C[0].Sort != SReal {
			return v
		}
		pos := app(SInt, "to_int", v.C[0])
		neg := app(SInt, "-", app(SInt, "to_int", app(SReal, "-", v.C[0])))
		return Val{T: tInt, C: []Term{ite(app(SBool, ">=", v.C[0], Term{"0.0", SReal}), pos, neg)}}
	case "abs":
		v := env.eval(x.Args[0])
		z := intT(0)
		neg := app(v.C[0].Sort, "-", v.C[0])
		if v.C[0].Sort == SReal {
			z = Term{"0.0", SReal}
		}
		return Val{T: v.T, C: []Term{ite(app(SBool, ">=", v.C[0], z), v.C[0], neg)}}
	case "min", "max":
		a, b := env.eval(x.Args[0]), env.eval(x.Args[1])
		c := le(a.C[0], b.C[0])
		if name == "max" {
			c = ge(a.C[0], b.C[0])
		}
		return Val{T: tInt, C: []Term{ite(c, a.C[0], b.C[0])}}
	case "bit":
		a := env.eval(x.Args[0])
		k := env.eval(x.Args[1])
		if bits, ok := constBits(k.C[0].S); ok {
			var kk uint
			for _, bb := range bits {
				kk |= 1 << bb
			}
			return Val{T: tBool, C: []Term{eq(bitOf(a.C[0], kk), intT(1))}}
		}
		return env.fail("bit index must be constant")
	}
	if p, ok := tr.g.specs.Preds[name]; ok {
		if len(p.Params) != len(x.Args) {
			return env.fail("pred %s: wrong number of arguments", name)
		}
		saved := map[string]*Val{}
		var args []Val
		for _, a := range x.Args {
			args = append(args, env.eval(a))
		}
		if p.Opaque {
			return env.viewApp(p, args)
		}
		for i, pn := range p.Params {
			if old, had := env.vars[pn]; had {
				o := old
				saved[pn] = &o
			} else {
				saved[pn] = nil
			}
			env.vars[pn] = args[i]
		}
		// predicates see only their parameters, not the caller's local names
		v := env.eval(p.Body)
		for pn, o := range saved {
			if o == nil {
				delete(env.vars, pn)
			} else {
				env.vars[pn] = *o
			}
		}
		return v
	}
	// a `deterministic` function of the repository, called by its bare name in a spec
	for k, c := range tr.g.specs.Contracts {
		if c.Determ && (k == name || strings.HasSuffix(k, "."+name)) {
			var args []Val
			for _, a := range x.Args {
				args = append(args, env.eval(a))
			}
			var sig *types.Signature
			if fn := tr.g.ld.lookupFunc(k); fn != nil {
				sig = fn.Signature
			} else if strings.HasPrefix(k, "funcfield:") {
				// funcfield:pkg.Type.field - the field's function type
				rest := strings.TrimPrefix(k, "funcfield:")
				if i := strings.LastIndex(rest, "."); i > 0 {
					if t := tr.g.ld.lookupType(rest[:i]); t != nil {
						if st, ok := under(t).(*types.Struct); ok {
							for j := 0; j < st.NumFields(); j++ {
								if st.Field(j).Name() == rest[i+1:] {
									sig, _ = under(st.Field(j).Type()).(*types.Signature)
								}
							}
						}
					}
				}
			}
			if sig == nil || sig.Results().Len() != 1 {
				break
			}
			rt := sig.Results().At(0).Type()
			cs := comps(rt)
			if len(cs) != 1 {
				break
			}
			if t, ok := tr.determTerm(k, args, cs[0].Sort); ok {
				return Val{T: rt, C: []Term{t}}
			}
		}
	}
	if u, ok := tr.g.specs.UFuncs[name]; ok {
		f := tr.e.declareFun("uf$"+u.Name, u.Args, u.Res)
		var as []Term
		for _, a := range x.Args {
			v := env.eval(a)
			as = append(as, v.C[0])
		}
		var t types.Type = tInt
		if u.Res == SBool {
			t = tBool
		} else if u.Res == SReal {
			t = types.Typ[types.Float64]
		}
		if len(as) == 0 {
			return Val{T: t, C: []Term{{f, u.Res}}}
		}
		return Val{T: t, C: []Term{app(u.Res, f, as...)}}
	}
	return env.fail("unknown spec function %s", name)
}

// bytesToStr is the immutable snapshot of arr[off:off+n].
func (g *Gen) bytesToStr(e *Emitter, arr, off, n Term) Term {
	f := e.declareFun("bytes2str", []Sort{arrSort(SInt, SInt), SInt, SInt}, SInt)
	t := Term{fmt.Sprintf("(%s %s %s %s)", f, arr.S, off.S, n.S), SInt}
	if !g.b2sAxiom {
		g.b2sAxiom = true
		at := e.declareFun("s$at", []Sort{SInt, SInt}, SInt)
		ln := e.declareFun("s$len", []Sort{SInt}, SInt)
		e.asserts = append(e.asserts,
			fmt.Sprintf("(assert (forall ((a (Array Int Int)) (o Int) (n Int)) (! (=> (>= n 0) (= (%s (%s a o n)) n)) :pattern ((%s a o n)))))", ln, f, f),
			fmt.Sprintf("(assert (forall ((a (Array Int Int)) (o Int) (n Int) (i Int)) (! (=> (and (<= 0 i) (< i n)) (= (%s (%s a o n) i) (select a (+ o i)))) :pattern ((%s (%s a o n) i)))))", at, f, at, f))
	}
	return t
}

// viewApp applies a `view`: a spec function kept as an uninterpreted symbol per heap state, with a definitional
// axiom whose pattern is the application itself. Quantified contract clauses over views therefore have clean triggers.
func (env *Env) viewApp(p *Pred, args []Val) Val {
	tr := env.tr
	g := tr.g
	for ai, a := range args {
		if len(a.C) != 1 {
			return env.fail("view %s: argument is not a single-component value", p.Name)
		}
		if env.mode == 1 && ai > 0 && a.C[0].Sort == SInt && isInteger(a.T) && !strings.Contains(a.C[0].S, "!q") {
			env.points = append(env.points, a.C[0])
		}
	}
	// evaluate the body over placeholders
	saved := map[string]*Val{}
	var phs []Term
	for i, pn := range p.Params {
		if old, had := env.vars[pn]; had {
			o := old
			saved[pn] = &o
		} else {
			saved[pn] = nil
		}
		ph := Term{fmt.Sprintf("vp!q%d_%s", i, p.Name), args[i].C[0].Sort}
		phs = append(phs, ph)
		env.vars[pn] = Val{T: args[i].T, C: []Term{ph}}
	}
	body := env.quiet(func() Val { return env.eval(p.Body) })
	for pn, o := range saved {
		if o == nil {
			delete(env.vars, pn)
		} else {
			env.vars[pn] = *o
		}
	}
	if len(body.C) != 1 {
		return env.fail("view %s: body is not a single-component value", p.Name)
	}
	key := p.Name + "|" + body.C[0].S
	fname, ok := g.viewSyms[key]
	if !ok {
		fname = fmt.Sprintf("view$%s$%d", p.Name, len(g.viewSyms))
		g.viewSyms[key] = fname
		var sorts []Sort
		var binders, names []string
		for _, ph := range phs {
			sorts = append(sorts, ph.Sort)
			binders = append(binders, fmt.Sprintf("(%s %s)", ph.S, ph.Sort))
			names = append(names, ph.S)
		}
		f := tr.e.declareFun(fname, sorts, body.C[0].Sort)
		appS := "(" + f + " " + strings.Join(names, " ") + ")"
		if len(names) == 0 {
			appS = f
			tr.e.asserts = append(tr.e.asserts, fmt.Sprintf("(assert (= %s %s))", appS, body.C[0].S))
		} else {
			tr.e.asserts = append(tr.e.asserts, fmt.Sprintf("(assert (forall (%s) (! (= %s %s) :pattern (%s))))", strings.Join(binders, " "), appS, body.C[0].S, appS))
		}
	}
	var as []Term
	for _, a := range args {
		as = append(as, a.C[0])
	}
	return Val{T: body.T, C: []Term{app(body.C[0].Sort, sym(fname), as...)}}
}

func astHasForall(e ast.Expr) bool {
	found := false
	ast.Inspect(e, func(n ast.Node) bool {
		if c, ok := n.(*ast.CallExpr); ok {
			if id, ok := c.Fun.(*ast.Ident); ok && (id.Name == "__forall" || id.Name == "__exists") {
				found = true
			}
		}
		return !found
	})
	return found
}

// clone copies an environment (variables included) so that it can be re-evaluated later.
func (env *Env) clone() *Env {
	c := *env
	c.vars = map[string]Val{}
	for k, v := range env.vars {
		c.vars[k] = v
	}
	c.letBusy = map[string]bool{}
	c.skolems = nil
	c.points = nil
	return &c
}

// assumeClause assumes a contract clause under cond and registers it for instantiation at goal skolems.
func (tr *Trans) assumeClause(env *Env, cond Term, e ast.Expr) {
	t := env.evalBool(e)
	tr.e.assume(cond, t)
	if astHasForall(e) || tr.g.specsHaveQuantPred(e) {
		snap := env.clone()
		tr.g.hyps = append(tr.g.hyps, func(k Term) Term {
			c := snap.clone()
			c.mode, c.instK, c.pol = 2, k, 1
			savedSt, savedRC := tr.st, tr.rc
			defer func() { tr.st, tr.rc = savedSt, savedRC }()
			return implies(cond, c.evalBool(e))
		})
	}
}

var boundNameRe = regexp.MustCompile(`!q\d+_\d+`)

// goalClause evaluates a clause as a proof goal: positive foralls become fresh constants, and every registered
// quantified hypothesis is instantiated at those constants (returned as extra assumptions for this obligation).
func (tr *Trans) goalClause(env *Env, e ast.Expr) (Term, []Term) {
	if len(tr.g.hyps) == 0 && !(astHasForall(e) || tr.g.specsHaveQuantPred(e)) {
		return env.evalBool(e), nil
	}
	env.mode, env.pol = 1, 1
	t := env.evalBool(e)
	env.mode = 0
	var extra []Term
	seen := map[string]bool{}
	var points []Term
	addPoint := func(x Term) {
		if !seen[x.S] && len(points) < 40 {
			seen[x.S] = true
			points = append(points, x)
		}
	}
	for _, k := range env.skolems {
		// the index itself and its neighbours (shifted views: byte-at-a-time readers and writers)
		addPoint(k)
		addPoint(add(k, intT(1)))
		addPoint(sub(k, intT(1)))
	}
	addPoint(intT(0))
	// every index at which the goal reads an array, a string or a view
	for _, ix := range env.points {
		addPoint(ix)
	}
	env.points = nil
	// indices the code itself used most recently (e.g. the element a range loop is looking at)
	for _, ix := range tr.g.recentIdx {
		addPoint(ix)
	}
	// instances that do not depend on the point (hypotheses whose quantifiers are existential) would be repeated once
	// per point under fresh bound-variable names: keep one copy of each
	seenExtra := map[string]bool{}
	for _, idx := range points {
		for _, h := range tr.g.hyps {
			if x := h(idx); x.S != "true" {
				key := boundNameRe.ReplaceAllString(x.S, "!q")
				if seenExtra[key] {
					continue
				}
				seenExtra[key] = true
				extra = append(extra, x)
			}
		}
	}
	env.skolems = nil
	return t, extra
}

// specsHaveQuantPred reports whether e calls a pred whose body (transitively) contains a forall.
func (g *Gen) specsHaveQuantPred(e ast.Expr) bool {
	found := false
	var visit func(e ast.Expr, depth int)
	visit = func(e ast.Expr, depth int) {
		if depth > 6 || found {
			return
		}
		ast.Inspect(e, func(n ast.Node) bool {
			if c, ok := n.(*ast.CallExpr); ok {
				if id, ok := c.Fun.(*ast.Ident); ok {
					if id.Name == "__forall" || id.Name == "__exists" {
						found = true
					} else if p, ok := g.specs.Preds[id.Name]; ok && !p.Opaque {
						visit(p.Body, depth+1)
					}
				}
			}
			return !found
		})
	}
	visit(e, 0)
	return found
}

// indexTermsOf extracts the index arguments of array reads, string reads and view applications from an SMT term.
func indexTermsOf(term string) []string {
	var out []string
	seen := map[string]bool{}
	// tokenise into s-expressions
	var parse func(i int) (int, []string, string) // returns next index, children texts, head
	_ = parse
	type node struct {
		text string
		kids []*node
	}
	pos := 0
	var rd func() *node
	rd = func() *node {
		for pos < len(term) && (term[pos] == ' ' || term[pos] == '\n') {
			pos++
		}
		if pos >= len(term) {
			return nil
		}
		start := pos
		if term[pos] == '(' {
			pos++
			n := &node{}
			for pos < len(term) {
				for pos < len(term) && term[pos] == ' ' {
					pos++
				}
				if pos < len(term) && term[pos] == ')' {
					pos++
					break
				}
				k := rd()
				if k == nil {
					break
				}
				n.kids = append(n.kids, k)
			}
			n.text = term[start:pos]
			return n
		}
		if term[pos] == '|' {
			pos++
			for pos < len(term) && term[pos] != '|' {
				pos++
			}
			pos++
			return &node{text: term[start:pos]}
		}
		for pos < len(term) && term[pos] != ' ' && term[pos] != ')' && term[pos] != '(' {
			pos++
		}
		return &node{text: term[start:pos]}
	}
	var walk func(n *node)
	walk = func(n *node) {
		if n == nil {
			return
		}
		if len(n.kids) >= 3 {
			h := n.kids[0].text
			if h == "select" || h == "s$at" || strings.HasPrefix(h, "view$") {
				ix := n.kids[len(n.kids)-1].text
				if !seen[ix] && len(ix) < 400 && !strings.Contains(ix, "!q") {
					seen[ix] = true
					out = append(out, ix)
				}
			}
		}
		for _, k := range n.kids {
			walk(k)
		}
	}
	for pos < len(term) {
		n := rd()
		if n == nil {
			break
		}
		walk(n)
	}
	return out
}

// lockState reads the ghost lock state of a sync.Mutex / sync.RWMutex object (pointer value).
func (env *Env) lockState(v Val, mode string) Val {
	tr := env.tr
	pt, ok := under(v.T).(*types.Pointer)
	if !ok || len(v.C) != 1 {
		return env.fail("held(): not a pointer to a mutex")
	}
	return Val{T: tBool, C: []Term{tr.g.lockHeld(tr.e, env.cur(), pt.Elem(), v.C[0], mode)}}
}

// lockHeld: ghost encoding of lock state in the real fields of sync.Mutex / sync.RWMutex (their values are otherwise opaque):
// Mutex.state == 1 means locked; RWMutex.w.state == 1 write-locked; RWMutex.readerCount > 0 read-locked.
func (g *Gen) lockHeld(e *Emitter, st *State, mt types.Type, ref Term, mode string) Term {
	name := typeKey(mt)
	switch name {
	case "sync.Mutex":
		// go1.26: Mutex wraps isync.Mutex in field mu; older: state/sema
		h := st.get(e, "lock$sync.Mutex", arrSort(SInt, SInt))
		return eq(sel(h, ref), intT(1))
	case "sync.RWMutex":
		hw := st.get(e, "lock$sync.RWMutex.w", arrSort(SInt, SInt))
		hr := st.get(e, "lock$sync.RWMutex.r", arrSort(SInt, SInt))
		if mode == "r" {
			return or(eq(sel(hw, ref), intT(1)), gt(sel(hr, ref), intT(0)))
		}
		return eq(sel(hw, ref), intT(1))
	}
	return e.fresh("held", SBool)
}

// selectFieldAddr evaluates &base.name: a pointer to an embedded struct/array field object.
func (env *Env) selectFieldAddr(base Val, name string) Val {
	tr := env.tr
	p, ok := under(base.T).(*types.Pointer)
	if !ok || len(base.C) != 1 {
		return env.fail("&x.%s: x is not a tracked pointer", name)
	}
	st, ok := under(p.Elem()).(*types.Struct)
	if !ok {
		return env.fail("&x.%s: x does not point to a struct", name)
	}
	for i := 0; i < st.NumFields(); i++ {
		if st.Field(i).Name() == name {
			if !isObjType(st.Field(i).Type()) {
				return env.fail("&x.%s: only struct/array fields have addresses in specs", name)
			}
			return Val{T: types.NewPointer(st.Field(i).Type()), C: []Term{tr.g.fr(tr.e, p.Elem(), name, base.C[0])}}
		}
	}
	return env.fail("&x.%s: no such field", name)
}
