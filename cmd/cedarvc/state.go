package main

import (
	"fmt"
	"strings"
)

// Epoch kinds.
const (
	epInit = iota
	epHavoc
	epMerge
	epLoop
)

type epParent struct {
	c Term
	s *State
}

// Epoch is the lazily materialised base of a state: what an unwritten key evaluates to.
type Epoch struct {
	id      int
	kind    int
	parents []epParent      // merge
	parent  *State          // havoc / loop: state before
	mod     map[string]bool // loop: keys havocked (nil for havoc-all)
	modAll  bool
	keep    []string // havoc: key prefixes that pass through (callee contract `preserves`)
	cache   map[string]Term
}

// State maps heap keys (field arrays, element arrays, cells, ghost variables) to terms.
type State struct {
	ep *Epoch
	w  map[string]Term
	g  *Gen
}

func (g *Gen) newEpoch(kind int) *Epoch {
	g.epochN++
	return &Epoch{id: g.epochN, kind: kind, cache: map[string]Term{}}
}

func (g *Gen) initState() *State {
	return &State{ep: g.newEpoch(epInit), w: map[string]Term{}, g: g}
}

func (s *State) clone() *State {
	w := make(map[string]Term, len(s.w))
	for k, v := range s.w {
		w[k] = v
	}
	return &State{ep: s.ep, w: w, g: s.g}
}

// keys that are private to the activation and survive havoc-all
func keyIsLocal(key string) bool {
	return strings.HasPrefix(key, "L$") || strings.HasPrefix(key, "D$")
}

func (s *State) get(e *Emitter, key string, sort Sort) Term {
	if t, ok := s.w[key]; ok {
		return t
	}
	return s.ep.lookup(e, s.g, key, sort)
}

func (s *State) set(key string, t Term) {
	s.w[key] = t
	s.g.touched[key] = t.Sort
	s.g.touchedAll[key] = t.Sort
}

func (ep *Epoch) lookup(e *Emitter, g *Gen, key string, sort Sort) Term {
	if t, ok := ep.cache[key]; ok {
		return t
	}
	var t Term
	switch ep.kind {
	case epInit:
		if strings.HasPrefix(key, "D$") {
			t = tFalse
		} else {
			t = e.declare(fmt.Sprintf("%s@0", key), sort)
		}
	case epHavoc:
		if keyIsLocal(key) && !ep.mod[key] || hasAnyPrefix(key, ep.keep) {
			t = ep.parent.get(e, key, sort)
		} else if key == "$wm" {
			t = e.declare(fmt.Sprintf("%s@h%d", key, ep.id), sort)
			e.asserts = append(e.asserts, "(assert "+ge(t, ep.parent.get(e, key, sort)).S+")")
		} else {
			t = e.declare(fmt.Sprintf("%s@h%d", key, ep.id), sort)
		}
	case epLoop:
		if ep.modAll && !keyIsLocal(key) && !hasAnyPrefix(key, ep.keep) || ep.mod[key] {
			t = e.declare(fmt.Sprintf("%s@l%d", key, ep.id), sort)
			if key == "$wm" {
				e.asserts = append(e.asserts, "(assert "+ge(t, ep.parent.get(e, key, sort)).S+")")
			}
		} else {
			t = ep.parent.get(e, key, sort)
		}
	case epMerge:
		vals := make([]Term, len(ep.parents))
		same := true
		for i, p := range ep.parents {
			vals[i] = p.s.get(e, key, sort)
			if vals[i].S != vals[0].S {
				same = false
			}
		}
		if same {
			t = vals[0]
		} else {
			acc := vals[len(vals)-1]
			for i := len(vals) - 2; i >= 0; i-- {
				acc = ite(ep.parents[i].c, vals[i], acc)
			}
			c := e.declare(fmt.Sprintf("%s@m%d", key, ep.id), sort)
			e.asserts = append(e.asserts, fmt.Sprintf("(assert (= %s %s))", c.S, acc.S))
			t = c
		}
	}
	ep.cache[key] = t
	return t
}

// mergeStates builds a state whose keys are the guarded choice among parents.
func (g *Gen) mergeStates(ps []epParent) *State {
	if len(ps) == 1 {
		return ps[0].s.clone()
	}
	ep := g.newEpoch(epMerge)
	ep.parents = ps
	return &State{ep: ep, w: map[string]Term{}, g: g}
}

// havocAll returns a state in which every non-local key is unknown.
func (g *Gen) havocAll(s *State, alsoLocal map[string]bool) *State {
	ep := g.newEpoch(epHavoc)
	ep.parent = s
	if len(g.escaped) > 0 {
		// local cells whose address was boxed into an interface value earlier
		m := map[string]bool{}
		for k := range alsoLocal {
			m[k] = true
		}
		for k := range g.escaped {
			m[k] = true
		}
		alsoLocal = m
	}
	ep.mod = alsoLocal
	g.havocAllSeen = true
	if g.dry == 0 {
		g.havocEpochs = append(g.havocEpochs, ep)
	} else {
		g.dryHavocs = append(g.dryHavocs, ep)
	}
	return &State{ep: ep, w: map[string]Term{}, g: g}
}

// havocKeys returns a state in which the given keys are unknown (loop heads).
func (g *Gen) havocKeys(s *State, mod map[string]bool, all bool) *State {
	ep := g.newEpoch(epLoop)
	ep.parent = s
	ep.mod = mod
	ep.modAll = all
	return &State{ep: ep, w: map[string]Term{}, g: g}
}

func hasAnyPrefix(key string, ps []string) bool {
	for _, p := range ps {
		if strings.HasPrefix(key, p) {
			return true
		}
	}
	return false
}
