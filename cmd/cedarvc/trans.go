package main

import (
	"fmt"
	"go/token"
	"go/types"
	"sort"
	"strings"

	"golang.org/x/tools/go/ssa"
)

// Gen is the generation context for one top-level function under contract.
type Gen struct {
	ld           *Loader
	specs        *Specs
	e            *Emitter
	epochN       int
	touched      map[string]Sort
	havocAllSeen bool
	replayVals   []NamedTerm // parameter values requested with safety obligations (see AutoReplay)
	escaped      map[string]bool // local cells whose address escaped into an interface value
	noCallN      int
	dryHavocs    []*Epoch // havoc-all epochs of the dry run in progress
	havocEpochs  []*Epoch // every havoc-all performed outside dry runs (their keep lists matter to `preserves` checks)
	assertHit    map[*AssertSpec]bool // in-body assert clauses that matched a call site
	obsLens      []Term // lengths taken with len() so far (see allocBound)
	strLits      map[string]Term
	strLitOrder  []string
	actN         int
	typeIDs      map[string]int
	frSeen       map[string]bool
	topKey       string
	depth        int
	opts         GenOpts
	abstracted   map[string]int // instruction kinds abstracted
	calleesUsed  map[string]string
	dry          int
	boundN       int
	specErrors   []string
	b2sAxiom     bool
	topTr        *Trans
	viewSyms     map[string]string
	recentIdx    []Term              // indices of recent slice accesses in the code (instantiation points for quantified facts)
	hyps         []func(k Term) Term // quantified assumptions, re-evaluable at a given index
	touchedAll   map[string]Sort     // every key ever written, across dry runs
}

type GenOpts struct {
	Safety   bool // emit bounds / make / panic obligations
	NilCheck bool
	Prop     string // property being checked: postconditions of callees in other packages that are tagged only for other properties are not assumed (smaller, more stable queries; dropping assumptions is always sound)
}

type retInfo struct {
	cond    Term
	st      *State
	results []Val
	block   *ssa.BasicBlock
	instr   ssa.Instruction // the return instruction (locals named in ensures resolve at this point)
}

type loopInfo struct {
	header  *ssa.BasicBlock
	ordinal int
	body    map[*ssa.BasicBlock]bool
	backs   []*ssa.BasicBlock
	spec    *LoopSpec
	phiVals map[*ssa.Phi]Val
	headSt  *State // havocked state at header (for decreases)
	decr0   Term
	mod     map[string]bool
	keep    []string // key prefixes every havoc-all in the body preserves
}

type deferRec struct {
	instr *ssa.Defer
	key   string
	order int
}

// Trans translates one activation (top-level or inlined) of an SSA function.
type Trans struct {
	lastRes map[string]Val // result of the latest call of each callee (by function name), for in-body asserts
	locals map[string][]ssa.Value // see localDefs
	g            *Gen
	e            *Emitter
	fn           *ssa.Function
	id           int
	vals         map[ssa.Value]Val
	contract     *Contract
	top          bool
	pre          *State
	params       []Val
	reach        map[*ssa.BasicBlock]Term
	out          map[*ssa.BasicBlock]*State
	edge         map[[2]*ssa.BasicBlock]Term
	rets         []retInfo
	loops        map[*ssa.BasicBlock]*loopInfo
	defers       []*deferRec
	callOrd      map[string]int
	cur          *ssa.BasicBlock
	st           *State // current state while translating a block
	rc           Term   // reach of current block
	label        string // prefix for obligation names
	pkg          *types.Package
	freeVars     map[*ssa.FreeVar]Val
	entryRC      Term
	ordCache     map[ssa.Instruction]int
	frameTs      []target
	frameAll     bool
	frameDone    bool
	callRank     map[ssa.Instruction]int
	curInstr     ssa.Instruction
	nameOverride []string // parameter names for spec evaluation (refinement checks)
}

func (g *Gen) newTrans(fn *ssa.Function, top bool) *Trans {
	g.actN++
	tr := &Trans{g: g, e: g.e, fn: fn, id: g.actN, vals: map[ssa.Value]Val{}, top: top,
		reach: map[*ssa.BasicBlock]Term{}, out: map[*ssa.BasicBlock]*State{}, edge: map[[2]*ssa.BasicBlock]Term{},
		loops: map[*ssa.BasicBlock]*loopInfo{}, callOrd: map[string]int{}, freeVars: map[*ssa.FreeVar]Val{}}
	if fn.Pkg != nil {
		tr.pkg = fn.Pkg.Pkg
	} else if fn.Parent() != nil && fn.Parent().Pkg != nil {
		tr.pkg = fn.Parent().Pkg.Pkg
	}
	tr.contract = g.specs.Contracts[fn.String()]
	tr.label = shortFn(fn)
	return tr
}

func shortFn(fn *ssa.Function) string {
	s := fn.String()
	s = strings.ReplaceAll(s, "github.com/bbockelm/cedar/", "")
	return s
}

func (tr *Trans) posOf(i ssa.Instruction) string {
	if i == nil {
		return ""
	}
	p := i.Pos()
	if !p.IsValid() {
		return ""
	}
	pp := tr.g.ld.fset.Position(p)
	return fmt.Sprintf("%s:%d", strings.TrimPrefix(pp.Filename, "/repo/"), pp.Line)
}

// ---------- block ordering and loops ----------

func (tr *Trans) analyzeCFG() []*ssa.BasicBlock {
	fn := tr.fn
	// back edges: p -> h where h dominates p
	isBack := func(p, h *ssa.BasicBlock) bool { return h.Dominates(p) }
	var ord []*ssa.BasicBlock
	seen := map[*ssa.BasicBlock]bool{}
	var dfs func(b *ssa.BasicBlock)
	dfs = func(b *ssa.BasicBlock) {
		seen[b] = true
		for _, s := range b.Succs {
			if isBack(b, s) {
				continue
			}
			if !seen[s] {
				dfs(s)
			}
		}
		ord = append(ord, b)
	}
	if len(fn.Blocks) == 0 {
		return nil
	}
	dfs(fn.Blocks[0])
	if fn.Recover != nil && !seen[fn.Recover] {
		// recover block not modelled
	}
	for i, j := 0, len(ord)-1; i < j; i, j = i+1, j-1 {
		ord[i], ord[j] = ord[j], ord[i]
	}
	// loops
	var headers []*ssa.BasicBlock
	for _, b := range fn.Blocks {
		for _, s := range b.Succs {
			if isBack(b, s) && seen[b] {
				li := tr.loops[s]
				if li == nil {
					li = &loopInfo{header: s, body: map[*ssa.BasicBlock]bool{s: true}}
					tr.loops[s] = li
					headers = append(headers, s)
				}
				li.backs = append(li.backs, b)
				// natural loop body
				work := []*ssa.BasicBlock{b}
				for len(work) > 0 {
					x := work[len(work)-1]
					work = work[:len(work)-1]
					if li.body[x] {
						continue
					}
					li.body[x] = true
					for _, p := range x.Preds {
						work = append(work, p)
					}
				}
			}
		}
	}
	// ordinals by source position of header (fallback block index)
	loopPos := func(h *ssa.BasicBlock) token.Pos {
		// smallest source position of any instruction in the loop body
		var best token.Pos
		for b := range tr.loops[h].body {
			for _, in := range b.Instrs {
				if _, isPhi := in.(*ssa.Phi); isPhi {
					continue // a phi carries the position of the variable's declaration, which may precede the loop
				}
				if p := in.Pos(); p.IsValid() && (best == 0 || p < best) {
					best = p
				}
			}
		}
		return best
	}
	sort.Slice(headers, func(i, j int) bool {
		pi, pj := loopPos(headers[i]), loopPos(headers[j])
		if pi != pj {
			return pi < pj
		}
		return headers[i].Index < headers[j].Index
	})
	for i, h := range headers {
		if tr.top && tr.g.dry == 0 {
			var names []string
			for _, in := range h.Instrs {
				if phi, ok := in.(*ssa.Phi); ok {
					names = append(names, phi.Comment)
				}
			}
			tr.e.note("%s: loop %d at block %d carries %s", tr.label, i+1, h.Index, strings.Join(names, ","))
		}
		tr.loops[h].ordinal = i + 1
		if tr.contract != nil {
			tr.loops[h].spec = tr.contract.Loops[i+1]
		}
	}
	return ord
}

func (tr *Trans) blockPos(b *ssa.BasicBlock) token.Pos {
	// position of the loop: smallest valid position among instructions of the header
	var best token.Pos
	for _, in := range b.Instrs {
		if p := in.Pos(); p.IsValid() && (best == 0 || p < best) {
			best = p
		}
	}
	if best == 0 {
		for _, s := range b.Succs {
			for _, in := range s.Instrs {
				if p := in.Pos(); p.IsValid() && (best == 0 || p < best) {
					best = p
				}
			}
		}
	}
	return best
}

// run translates the function body from state st with reach rc and parameter values.
func (tr *Trans) run(st *State, rc Term, params []Val) {
	tr.pre = st.clone()
	tr.params = params
	tr.entryRC = rc
	for i, p := range tr.fn.Params {
		if i < len(params) {
			tr.vals[p] = params[i]
		}
	}
	order := tr.analyzeCFG()
	if len(order) == 0 {
		return
	}
	// static defer order
	n := 0
	for _, b := range order {
		for _, in := range b.Instrs {
			if d, ok := in.(*ssa.Defer); ok {
				n++
				tr.defers = append(tr.defers, &deferRec{instr: d, key: fmt.Sprintf("D$%d$%d", tr.id, n), order: n})
			}
		}
	}
	tr.runBlocks(order, st, rc, nil)
}

// runBlocks processes blocks in order; dryLoop, when set, restricts to a loop body (dry run).
func (tr *Trans) runBlocks(order []*ssa.BasicBlock, entrySt *State, entryRC Term, dryLoop *loopInfo) {
	for _, b := range order {
		if dryLoop != nil && !dryLoop.body[b] {
			continue
		}
		var st *State
		var rc Term
		isEntry := b == tr.fn.Blocks[0]
		li := tr.loops[b]
		// incoming forward edges
		type inc struct {
			p *ssa.BasicBlock
			c Term
		}
		var incs []inc
		for _, p := range b.Preds {
			if li != nil && li.body[p] && b.Dominates(p) {
				continue // back edge
			}
			c, ok := tr.edge[[2]*ssa.BasicBlock{p, b}]
			if !ok {
				continue // unreachable pred (e.g. not processed)
			}
			incs = append(incs, inc{p, c})
		}
		if dryLoop != nil && b == dryLoop.header {
			st = entrySt
			rc = entryRC
			for _, in := range b.Instrs {
				if phi, ok := in.(*ssa.Phi); ok {
					tr.vals[phi] = tr.freshVal(phi.Type(), "dphi", st, rc)
				}
			}
		} else if isEntry && len(incs) == 0 {
			st = entrySt
			rc = entryRC
		} else {
			if len(incs) == 0 {
				// unreachable block
				tr.reach[b] = tFalse
				tr.out[b] = entrySt.clone()
				continue
			}
			var ps []epParent
			var conds []Term
			for _, ic := range incs {
				ps = append(ps, epParent{ic.c, tr.out[ic.p]})
				conds = append(conds, ic.c)
			}
			rcT := or(conds...)
			rc = tr.e.name(fmt.Sprintf("reach$%d$b%d", tr.id, b.Index), rcT)
			st = tr.g.mergeStates(ps)
			// phis
			phiIn := func(phi *ssa.Phi) Val {
				var acc Val
				first := true
				for k := len(incs) - 1; k >= 0; k-- {
					// find index of pred in b.Preds
					var v Val
					for pi, p := range b.Preds {
						if p == incs[k].p {
							v = tr.val(phi.Edges[pi])
							break
						}
					}
					if first {
						acc = v
						first = false
					} else {
						acc = tr.iteVal(incs[k].c, v, acc, phi.Type())
					}
				}
				return acc
			}
			if li != nil && dryLoop != li {
				// loop header: check invariant on entry, havoc, assume
				entryPhis := map[*ssa.Phi]Val{}
				for _, in := range b.Instrs {
					if phi, ok := in.(*ssa.Phi); ok {
						entryPhis[phi] = phiIn(phi)
					}
				}
				tr.checkInvariant(li, st, rc, entryPhis, "entry")
				mod, all := tr.loopModSet(li, st, rc)
				li.mod = mod
				if tr.g.dry == 0 && !all {
					tr.loopFrame(li, mod, st, rc, "entry", false)
				}
				hs := tr.g.havocKeys(st, mod, all)
				hs.ep.keep = li.keep
				li.phiVals = map[*ssa.Phi]Val{}
				for _, in := range b.Instrs {
					if phi, ok := in.(*ssa.Phi); ok {
						v := tr.freshVal(phi.Type(), "phi$"+phi.Name(), hs, rc)
						li.phiVals[phi] = v
						tr.vals[phi] = v
					}
				}
				st = hs
				for phi, v := range li.phiVals {
					if phi.Comment == "rangeindex" && len(v.C) == 1 {
						// implicit invariant of range loops: the index starts at -1 and only increases
						if ev, ok := entryPhis[phi]; ok && len(ev.C) == 1 && tr.g.dry == 0 {
							tr.e.oblige(&Obl{Name: fmt.Sprintf("%s#loop%d.entry:rangeindex", tr.label, li.ordinal), Kind: "invariant-entry", Props: tr.propsOf(), Cond: rc, Goal: ge(ev.C[0], intT(-1)), Fn: tr.label})
						}
						tr.e.assume(rc, ge(v.C[0], intT(-1)))
					}
				}
				// monotone induction variables (i = i + k on every back edge, k a constant of one sign) of the integer types
				// whose arithmetic is modelled without overflow: i stays on one side of its entry value. Inferred, not annotated.
				for phi, v := range li.phiVals {
					ev, ok := entryPhis[phi]
					if !ok || len(v.C) != 1 || len(ev.C) != 1 {
						continue
					}
					if bt, ok := under(phi.Type()).(*types.Basic); !ok || (bt.Kind() != types.Int && bt.Kind() != types.Int64) {
						continue
					}
					up, down, other := false, false, false
					// steps(v): the constant offsets k with v == phi + k along every way v is computed (through merges)
					var steps func(v ssa.Value, acc int64, depth int) bool
					steps = func(v ssa.Value, acc int64, depth int) bool {
						if depth > 6 {
							return false
						}
						if v == ssa.Value(phi) {
							if acc > 0 {
								up = true
							}
							if acc < 0 {
								down = true
							}
							return true
						}
						switch x := v.(type) {
						case *ssa.BinOp:
							c, ok := x.Y.(*ssa.Const)
							if !ok || c.Value == nil || (x.Op != token.ADD && x.Op != token.SUB) {
								return false
							}
							k := c.Int64()
							if x.Op == token.SUB {
								k = -k
							}
							return steps(x.X, acc+k, depth+1)
						case *ssa.Phi:
							if !li.body[x.Block()] {
								return false
							}
							for _, e := range x.Edges {
								if !steps(e, acc, depth+1) {
									return false
								}
							}
							return true
						}
						return false
					}
					for pi, p := range b.Preds {
						if !li.body[p] {
							continue
						}
						if !steps(phi.Edges[pi], 0, 0) {
							other = true
						}
					}
					if other || up && down {
						continue
					}
					if !down {
						tr.e.assume(rc, ge(v.C[0], ev.C[0]))
					}
					if !up {
						tr.e.assume(rc, le(v.C[0], ev.C[0]))
					}
				}
				if !all {
					tr.loopFrame(li, mod, st, rc, "assume", true)
				}
				tr.assumeInvariant(li, st, rc)
				li.headSt = st.clone()
			} else {
				for _, in := range b.Instrs {
					if phi, ok := in.(*ssa.Phi); ok {
						tr.vals[phi] = phiIn(phi)
					}
				}
			}
		}
		tr.reach[b] = rc
		tr.cur = b
		tr.st = st
		tr.rc = rc
		for _, in := range b.Instrs {
			if _, ok := in.(*ssa.Phi); ok {
				continue
			}
			tr.instr(in)
		}
		tr.out[b] = tr.st
		// back edges out of this block: check invariant preservation
		for _, s := range b.Succs {
			if l2 := tr.loops[s]; l2 != nil && l2.body[b] && s.Dominates(b) {
				if dryLoop != nil {
					continue
				}
				c := tr.edge[[2]*ssa.BasicBlock{b, s}]
				phis := map[*ssa.Phi]Val{}
				for _, in := range s.Instrs {
					if phi, ok := in.(*ssa.Phi); ok {
						for pi, p := range s.Preds {
							if p == b {
								phis[phi] = tr.val(phi.Edges[pi])
							}
						}
					}
				}
				for phi, v := range phis {
					if phi.Comment == "rangeindex" && len(v.C) == 1 {
						tr.e.oblige(&Obl{Name: fmt.Sprintf("%s#loop%d.preserved:rangeindex", tr.label, l2.ordinal), Kind: "invariant-preserved", Props: tr.propsOf(), Cond: c, Goal: ge(v.C[0], intT(-1)), Fn: tr.label})
					}
				}
				tr.checkInvariant(l2, tr.st, c, phis, "preserved")
				if l2.mod != nil {
					tr.loopFrame(l2, l2.mod, tr.st, c, "preserved", false)
				}
			}
		}
	}
}

// loopModSet dry-runs the loop body to find which heap keys it writes.
func (tr *Trans) loopModSet(li *loopInfo, st *State, rc Term) (map[string]bool, bool) {
	g := tr.g
	savedTouched := g.touched
	savedSink := tr.e.sink
	savedHav := g.havocAllSeen
	g.touched = map[string]Sort{}
	g.havocAllSeen = false
	savedDryHavocs := g.dryHavocs
	g.dryHavocs = nil
	tr.e.sink = true
	g.dry++
	// save per-activation maps that the dry run overwrites
	savedVals := map[ssa.Value]Val{}
	for k, v := range tr.vals {
		savedVals[k] = v
	}
	savedReach, savedOut, savedEdge := tr.reach, tr.out, tr.edge
	tr.reach = map[*ssa.BasicBlock]Term{}
	tr.out = map[*ssa.BasicBlock]*State{}
	tr.edge = map[[2]*ssa.BasicBlock]Term{}
	savedCallOrd := tr.callOrd
	tr.callOrd = map[string]int{}
	for k, v := range savedCallOrd {
		tr.callOrd[k] = v
	}
	savedRets := tr.rets
	dryRC := tr.e.fresh("dryreach", SBool)
	dst := g.havocKeys(st, nil, true)
	order := tr.rpoOrder()
	tr.runBlocks(order, dst, dryRC, li)
	mod := map[string]bool{}
	for k := range g.touched {
		mod[k] = true
	}
	all := g.havocAllSeen
	// what every havoc-all in the body keeps (callee `preserves` clauses), the loop head keeps too
	var keep []string
	for i, ep := range g.dryHavocs {
		if i == 0 {
			keep = append(keep, ep.keep...)
			continue
		}
		var both []string
		for _, k := range keep {
			if hasAnyPrefix(k, ep.keep) {
				both = append(both, k)
			}
		}
		keep = both
	}
	li.keep = keep
	g.dryHavocs = append(savedDryHavocs, g.dryHavocs...)
	// restore
	g.dry--
	for k, s := range g.touched {
		savedTouched[k] = s
	}
	g.touched = savedTouched
	g.havocAllSeen = savedHav || all
	tr.e.sink = savedSink
	tr.vals = savedVals
	tr.reach, tr.out, tr.edge = savedReach, savedOut, savedEdge
	tr.callOrd = savedCallOrd
	tr.rets = savedRets
	return mod, all
}

func (tr *Trans) rpoOrder() []*ssa.BasicBlock {
	var ord []*ssa.BasicBlock
	seen := map[*ssa.BasicBlock]bool{}
	var dfs func(b *ssa.BasicBlock)
	dfs = func(b *ssa.BasicBlock) {
		seen[b] = true
		for _, s := range b.Succs {
			if s.Dominates(b) {
				continue
			}
			if !seen[s] {
				dfs(s)
			}
		}
		ord = append(ord, b)
	}
	dfs(tr.fn.Blocks[0])
	for i, j := 0, len(ord)-1; i < j; i, j = i+1, j-1 {
		ord[i], ord[j] = ord[j], ord[i]
	}
	return ord
}

func (tr *Trans) loopEnv(li *loopInfo, st *State, phis map[*ssa.Phi]Val) *Env {
	env := tr.topEnv(st)
	// loop variables: bind source names of phis (and of allocs referenced by name)
	for phi, v := range phis {
		if n := phi.Comment; n != "" {
			if pv, isParam := env.vars[n]; isParam {
				env.vars["old$"+n] = pv // old(n) of a reassigned parameter is its entry value
			}
			env.vars[n] = v
		}
	}
	// the range indices of the enclosing loops, by loop ordinal: rangeindex<k>
	for _, outer := range tr.loops {
		if outer == li || !outer.body[li.header] {
			continue
		}
		if outer.phiVals == nil {
			if tr.g.dry > 0 {
				// dry run of the enclosing loop (mod-set discovery): its header values do not exist yet
				env.vars[fmt.Sprintf("rangeindex%d", outer.ordinal)] = Val{T: tInt, C: []Term{tr.e.fresh("dryidx", SInt)}}
			}
			continue
		}
		for phi, v := range outer.phiVals {
			if phi.Comment == "rangeindex" {
				env.vars[fmt.Sprintf("rangeindex%d", outer.ordinal)] = v
			}
		}
	}
	return env
}

func (tr *Trans) checkInvariant(li *loopInfo, st *State, cond Term, phis map[*ssa.Phi]Val, what string) {
	if li.spec == nil {
		return
	}
	for _, inv := range li.spec.Invs {
		env := tr.loopEnv(li, st, phis)
		env.reach = cond
		t, extra := tr.goalClause(env, inv.AST)
		tr.e.oblige(&Obl{Name: fmt.Sprintf("%s#loop%d.%s:%s", tr.label, li.ordinal, what, inv.Label), Kind: "invariant-" + what,
			Props: inv.Props, Cond: cond, Goal: t, Pos: inv.Where, Fn: tr.label, Extra: extra})
	}
	if what == "preserved" {
		for _, it := range li.spec.Iters {
			env := tr.loopEnv(li, st, phis)
			env.reach = cond
			t, extra := tr.goalClause(env, it.AST)
			tr.e.oblige(&Obl{Name: fmt.Sprintf("%s#loop%d.iteration:%s", tr.label, li.ordinal, it.Label), Kind: "invariant-preserved",
				Props: it.Props, Cond: cond, Goal: t, Pos: it.Where, Fn: tr.label, Extra: extra})
		}
	}
	if li.spec.Decreases != nil && what == "preserved" && li.decr0.ok() {
		env := tr.loopEnv(li, st, phis)
		env.reach = cond
		d := env.eval(li.spec.Decreases.AST)
		tr.e.oblige(&Obl{Name: fmt.Sprintf("%s#loop%d:decreases", tr.label, li.ordinal), Kind: "decreases",
			Props: li.spec.Decreases.Props, Cond: cond, Goal: and(lt(d.C[0], li.decr0), ge(li.decr0, intT(0))), Pos: li.spec.Decreases.Where, Fn: tr.label})
	}
}

func (tr *Trans) assumeInvariant(li *loopInfo, st *State, rc Term) {
	if li.spec == nil {
		return
	}
	for _, inv := range li.spec.Invs {
		env := tr.loopEnv(li, st.clone(), li.phiVals)
		env.reach = rc
		tr.assumeClause(env, rc, inv.AST)
	}
	if li.spec.Decreases != nil {
		env := tr.loopEnv(li, st, li.phiVals)
		env.reach = rc
		d := env.eval(li.spec.Decreases.AST)
		li.decr0 = tr.e.name("decr0", d.C[0])
	}
}

// ---------- values ----------

func (tr *Trans) val(v ssa.Value) Val {
	if x, ok := tr.vals[v]; ok {
		return x
	}
	switch c := v.(type) {
	case *ssa.Const:
		return tr.constVal(c)
	case *ssa.Global:
		key := tr.g.globalKey(tr.e, c.Pkg.Pkg.Name(), c.Name())
		pt := c.Type().(*types.Pointer).Elem()
		if isObjType(pt) {
			// global object: stable ref
			r := tr.e.declare("gref$"+c.Pkg.Pkg.Name()+"."+c.Name(), SInt)
			tr.e.assertRaw(lt(r, intT(0)))
			return Val{T: c.Type(), C: []Term{r}}
		}
		return Val{T: c.Type(), Addr: &Addr{Kind: AddrCell, Key: key, T: pt}}
	case *ssa.Function:
		return Val{T: c.Type(), Fn: c, C: []Term{tr.e.declare("fn$"+c.String(), SInt)}}
	case *ssa.FreeVar:
		if x, ok := tr.freeVars[c]; ok {
			return x
		}
		return tr.freshVal(c.Type(), "freevar", tr.st, tr.rc)
	case *ssa.Builtin:
		return Val{T: c.Type()}
	}
	// not yet defined (e.g. value from an unprocessed block): havoc
	tr.e.note("%s: use of undefined value %s", tr.label, v.Name())
	x := tr.freshVal(v.Type(), "undef$"+v.Name(), tr.st, tr.rc)
	tr.vals[v] = x
	return x
}

func (tr *Trans) constVal(c *ssa.Const) Val {
	t := c.Type()
	if c.Value == nil {
		// zero value / nil
		return tr.zeroVal(t)
	}
	return tr.g.constToVal(tr.e, c.Value, t)
}

// freshVal creates an unconstrained value of type t with its type invariants assumed under rc.
func (tr *Trans) freshVal(t types.Type, prefix string, st *State, rc Term) Val {
	v := Val{T: t}
	for _, c := range comps(t) {
		v.C = append(v.C, tr.e.fresh(fmt.Sprintf("%s%s", prefix, c.Suffix), c.Sort))
	}
	tr.assumeTyped(v, st, rc)
	return v
}

// assumeTyped assumes the representation invariants of a value (ranges, slice shape, allocated refs).
func (tr *Trans) assumeTyped(v Val, st *State, rc Term) {
	cs := comps(v.T)
	if len(cs) != len(v.C) {
		return
	}
	var wm Term
	getWM := func() Term {
		if !wm.ok() {
			wm = st.get(tr.e, "$wm", SInt)
		}
		return wm
	}
	for i, c := range cs {
		x := v.C[i]
		switch c.Role {
		case "ref":
			// slice: 4 comps
			off, ln, cp := v.C[i+1], v.C[i+2], v.C[i+3]
			tr.e.assume(rc, and(lt(tr.g.rootOf(tr.e, x), getWM()), le(intT(0), off), le(intT(0), ln), le(ln, cp),
				implies(eq(x, intT(0)), and(eq(cp, intT(0)), eq(off, intT(0)))),
				le(cp, bigT("4611686018427387904"))))
		case "off", "len", "cap", "array", "opaque":
		default:
			switch u := under(c.T).(type) {
			case *types.Basic:
				if u.Info()&types.IsInteger != 0 {
					lo, hi := intRange(c.T)
					tr.e.assume(rc, inRange(x, lo, hi))
				} else if u.Info()&types.IsString != 0 {
					tr.e.assume(rc, and(ge(tr.g.strLen(tr.e, x), intT(0))))
				}
			case *types.Pointer, *types.Map, *types.Chan:
				tr.e.assume(rc, and(lt(tr.g.rootOf(tr.e, x), getWM())))
			case *types.Interface:
				// type-system fact: the dynamic type of an interface value implements the interface
				for _, tn := range sortedKeys(tr.g.specs.TypeLits) {
					if !strings.ContainsAny(tn, ".*") {
						continue // basic types named in specs (typeis(v, "int64")) never implement a method-bearing interface; no fact needed
					}
					if ct := tr.g.ld.lookupType(tn); ct != nil && !types.Implements(ct, u) {
						tr.e.assume(rc, not(eq(tr.dynType(x), intT(int64(tr.g.typeID(ct))))))
					}
				}
			case *types.Signature:
			}
		}
	}
}

func (tr *Trans) iteVal(c Term, a, b Val, t types.Type) Val {
	out := Val{T: t}
	if len(a.C) != len(b.C) {
		tr.e.note("%s: phi of differently shaped values", tr.label)
		return tr.freshVal(t, "phimix", tr.st, tr.rc)
	}
	for i := range a.C {
		out.C = append(out.C, ite(c, a.C[i], b.C[i]))
	}
	if a.Addr != nil && b.Addr != nil && a.Addr.Kind == b.Addr.Kind && a.Addr.Key == b.Addr.Key && a.Addr.Field == b.Addr.Field {
		ad := *a.Addr
		if ad.Base.ok() {
			ad.Base = ite(c, a.Addr.Base, b.Addr.Base)
		}
		if ad.Idx.ok() {
			ad.Idx = ite(c, a.Addr.Idx, b.Addr.Idx)
		}
		out.Addr = &ad
	} else if a.Addr != nil || b.Addr != nil {
		tr.e.note("%s: phi over distinct static addresses (pointer treated as opaque)", tr.label)
		out.Addr = &Addr{Kind: AddrOpaque, T: t}
	}
	if a.Fn != nil && a.Fn == b.Fn {
		out.Fn = a.Fn
		out.Bind = a.Bind
	}
	return out
}

func (tr *Trans) setVal(v ssa.Value, x Val) {
	// name big terms so later uses stay small
	for i := range x.C {
		x.C[i] = tr.e.name(fmt.Sprintf("v$%d$%s", tr.id, v.Name()), x.C[i])
	}
	tr.vals[v] = x
}

// globalKey names the cell of a package-level variable. Variables declared `immutable` in the specs (sentinel
// errors such as io.EOF) are constants: their cell survives havoc and holds a non-nil value.
func (g *Gen) globalKey(e *Emitter, pkg, name string) string {
	if g.specs.Immutable[pkg+"."+name] {
		key := "L$const$" + pkg + "." + name
		if !g.frSeen[key] {
			g.frSeen[key] = true
			c := e.declare(key+"@0", SInt)
			e.asserts = append(e.asserts, "(assert "+not(eq(c, intT(0))).S+")")
			// distinct sentinels are distinct values
			e.asserts = append(e.asserts, "(assert "+eq(c, intT(int64(-3000000-len(g.frSeen)))).S+")")
		}
		return key
	}
	return "G$" + pkg + "." + name
}

func (g *Gen) noteIndex(idx Term) {
	if strings.Contains(idx.S, "!q") || g.dry > 0 {
		return
	}
	for _, x := range g.recentIdx {
		if x.S == idx.S {
			return
		}
	}
	g.recentIdx = append(g.recentIdx, idx)
	if len(g.recentIdx) > 8 {
		g.recentIdx = g.recentIdx[len(g.recentIdx)-8:]
	}
}
