package main

import (
	"fmt"
	"go/types"
	"strings"

	"golang.org/x/tools/go/ssa"
)

// Comp is one SMT component of a flattened Go type.
type Comp struct {
	Suffix string
	Sort   Sort
	T      types.Type // Go type of the leaf this component belongs to
	Role   string     // "", "ref", "off", "len", "cap"
}

type AddrKind int

const (
	AddrCell  AddrKind = iota + 1 // local / global cell: key prefix
	AddrField                     // field of heap struct object
	AddrElem                      // element of a backing array object
	AddrOpaque
)

// Addr is a generator-side pointer to a non-object location.
type Addr struct {
	Kind  AddrKind
	Key   string     // cell key prefix, or struct type key for fields
	Base  Term       // struct ref / array ref
	Field string     // field name
	Idx   Term       // element index (absolute within backing array)
	T     types.Type // pointee type
	ST    types.Type // struct type for field addresses
	FV    *types.Var
}

// Val is the symbolic value of an SSA value or spec expression.
type Val struct {
	T    types.Type
	C    []Term
	Addr *Addr
	Fn   *ssa.Function // statically known function value
	Bind []Val         // closure bindings
	Lit  *string       // string literal content when known
}

func under(t types.Type) types.Type {
	for {
		switch x := t.(type) {
		case *types.Named:
			t = x.Underlying()
		case *types.Alias:
			t = types.Unalias(x)
		default:
			return t
		}
	}
}

func isObjType(t types.Type) bool { // struct or array: lives as its own heap object
	switch under(t).(type) {
	case *types.Struct, *types.Array:
		return true
	}
	return false
}

func typeKey(t types.Type) string {
	switch x := t.(type) {
	case *types.Named:
		o := x.Obj()
		n := o.Name()
		if ta := x.TypeArgs(); ta != nil && ta.Len() > 0 {
			var as []string
			for i := 0; i < ta.Len(); i++ {
				as = append(as, typeKey(ta.At(i)))
			}
			n += "[" + strings.Join(as, ",") + "]"
		}
		if o.Pkg() != nil {
			return o.Pkg().Name() + "." + n
		}
		return n
	case *types.Alias:
		return typeKey(types.Unalias(x))
	case *types.Basic:
		switch x.Kind() {
		case types.Uint8:
			return "byte"
		case types.Int32:
			return "int32"
		}
		return x.Name()
	case *types.Pointer:
		return "*" + typeKey(x.Elem())
	case *types.Slice:
		return "[]" + typeKey(x.Elem())
	case *types.Array:
		return fmt.Sprintf("[%d]%s", x.Len(), typeKey(x.Elem()))
	case *types.Map:
		return "map[" + typeKey(x.Key()) + "]" + typeKey(x.Elem())
	case *types.Interface:
		if x.NumMethods() == 0 {
			return "any"
		}
		return "iface"
	case *types.Struct:
		var fs []string
		for i := 0; i < x.NumFields(); i++ {
			fs = append(fs, x.Field(i).Name())
		}
		return "struct{" + strings.Join(fs, ",") + "}"
	case *types.Signature:
		return "func"
	case *types.Chan:
		return "chan"
	case *types.Tuple:
		return "tuple"
	}
	return t.String()
}

func basicSort(b *types.Basic) Sort {
	info := b.Info()
	switch {
	case info&types.IsBoolean != 0:
		return SBool
	case info&types.IsFloat != 0:
		return SReal
	case info&types.IsComplex != 0:
		return SInt
	}
	return SInt // integers, strings (ids), unsafe.Pointer, untyped nil
}

// comps flattens a type into SMT components.
func comps(t types.Type) []Comp {
	switch x := under(t).(type) {
	case *types.Basic:
		return []Comp{{"", basicSort(x), t, ""}}
	case *types.Slice:
		return []Comp{{".ref", SInt, t, "ref"}, {".off", SInt, t, "off"}, {".len", SInt, t, "len"}, {".cap", SInt, t, "cap"}}
	case *types.Array:
		ec := comps(x.Elem())
		if len(ec) == 1 {
			return []Comp{{"", arrSort(SInt, ec[0].Sort), t, "array"}}
		}
		return []Comp{{"", SInt, t, "opaque"}}
	case *types.Struct:
		var out []Comp
		for i := 0; i < x.NumFields(); i++ {
			f := x.Field(i)
			for _, c := range comps(f.Type()) {
				out = append(out, Comp{"." + f.Name() + c.Suffix, c.Sort, c.T, c.Role})
			}
		}
		if len(out) == 0 {
			return []Comp{}
		}
		return out
	case *types.Tuple:
		var out []Comp
		for i := 0; i < x.Len(); i++ {
			for _, c := range comps(x.At(i).Type()) {
				out = append(out, Comp{fmt.Sprintf(".#%d%s", i, c.Suffix), c.Sort, c.T, c.Role})
			}
		}
		return out
	}
	return []Comp{{"", SInt, t, ""}}
}

func ncomps(t types.Type) int { return len(comps(t)) }

func zeroOfSort(s Sort) Term {
	switch s {
	case SInt:
		return intT(0)
	case SBool:
		return tFalse
	case SReal:
		return Term{"0.0", SReal}
	}
	// array: constant zero array
	return Term{fmt.Sprintf("((as const %s) %s)", s, zeroOfSort(s.elem()).S), s}
}

var emptyStringID = "str$empty"

// zeroVal returns the zero value of a type. Strings need the emitter for "".
func (tr *Trans) zeroVal(t types.Type) Val {
	cs := comps(t)
	v := Val{T: t}
	for _, c := range cs {
		if b, ok := under(c.T).(*types.Basic); ok && b.Info()&types.IsString != 0 {
			v.C = append(v.C, tr.g.strLit(tr.e, ""))
			continue
		}
		v.C = append(v.C, zeroOfSort(c.Sort))
	}
	return v
}

func isString(t types.Type) bool {
	b, ok := under(t).(*types.Basic)
	return ok && b.Info()&types.IsString != 0
}
func isInteger(t types.Type) bool {
	b, ok := under(t).(*types.Basic)
	return ok && b.Info()&types.IsInteger != 0
}
func isUnsigned(t types.Type) bool {
	b, ok := under(t).(*types.Basic)
	return ok && b.Info()&types.IsUnsigned != 0
}
func isBool(t types.Type) bool {
	b, ok := under(t).(*types.Basic)
	return ok && b.Info()&types.IsBoolean != 0
}
func isFloat(t types.Type) bool {
	b, ok := under(t).(*types.Basic)
	return ok && b.Info()&types.IsFloat != 0
}
func isSlice(t types.Type) bool { _, ok := under(t).(*types.Slice); return ok }
func isPointer(t types.Type) bool {
	_, ok := under(t).(*types.Pointer)
	return ok
}
func isInterface(t types.Type) bool {
	_, ok := under(t).(*types.Interface)
	return ok
}
func isMap(t types.Type) bool { _, ok := under(t).(*types.Map); return ok }

// intBits returns width and signedness for integer types (int/uint = 64).
func intBits(t types.Type) (uint, bool) {
	b, ok := under(t).(*types.Basic)
	if !ok {
		return 64, true
	}
	switch b.Kind() {
	case types.Int8:
		return 8, true
	case types.Int16:
		return 16, true
	case types.Int32:
		return 32, true
	case types.Int64, types.Int, types.UntypedInt, types.UntypedRune:
		return 64, true
	case types.Uint8:
		return 8, false
	case types.Uint16:
		return 16, false
	case types.Uint32:
		return 32, false
	case types.Uint64, types.Uint, types.Uintptr:
		return 64, false
	}
	return 64, true
}

func intRange(t types.Type) (lo, hi string) {
	w, signed := intBits(t)
	if signed {
		return "-" + pow2(w-1), subOne(pow2(w - 1))
	}
	return "0", subOne(pow2(w))
}

func subOne(s string) string {
	b := []byte(s)
	i := len(b) - 1
	for i >= 0 && b[i] == '0' {
		b[i] = '9'
		i--
	}
	b[i]--
	if b[0] == '0' && len(b) > 1 {
		b = b[1:]
	}
	return string(b)
}

// wrapInt wraps a mathematical integer term into the range of integer type t.
func wrapInt(x Term, t types.Type) Term {
	w, signed := intBits(t)
	m := bigT(pow2(w))
	if !signed {
		return imod(x, m)
	}
	h := bigT(pow2(w - 1))
	return sub(imod(add(x, h), m), h)
}
