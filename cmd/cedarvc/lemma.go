package main

import (
	"fmt"
	"go/types"
)

// genLemmaVC turns lemmas (pure SMT facts over declared variables) into obligations.
func genLemmaVC(ld *Loader, specs *Specs, ls []*Lemma) *FuncVC {
	g := ld.newGen(specs, GenOpts{})
	vc := &FuncVC{Key: "lemmas", Label: "lemmas"}
	tr := &Trans{g: g, e: g.e, id: 0, label: "lemma", callOrd: map[string]int{}}
	tr.rc = tTrue
	st := g.initState()
	tr.st = st
	tr.pre = st
	for _, l := range ls {
		env := tr.newEnv(st, st)
		if p := ld.pkgByPath[l.Pkg]; p != nil {
			env.pkg = p
			tr.pkg = p
		}
		tr.label = "lemma." + l.Name
		for _, v := range l.Vars {
			var t types.Type
			switch v.Type {
			case "int":
				t = tInt
			case "bool":
				t = tBool
			case "string", "bytes":
				t = tString
			default:
				t = ld.lookupType(v.Type)
			}
			if t == nil {
				g.specErrors = append(g.specErrors, fmt.Sprintf("lemma %s: unknown type %s", l.Name, v.Type))
				continue
			}
			val := Val{T: t}
			for _, c := range comps(t) {
				val.C = append(val.C, g.e.declare(fmt.Sprintf("lem$%s$%s%s", l.Name, v.Name, c.Suffix), c.Sort))
			}
			env.vars[v.Name] = val
		}
		var hyps []Term
		for _, h := range l.Hyps {
			hyps = append(hyps, env.evalBool(h.AST))
		}
		if l.Concl == nil {
			continue
		}
		goal := env.evalBool(l.Concl.AST)
		var vals []NamedTerm
		for _, v := range l.Vars {
			if x, ok := env.vars[v.Name]; ok && len(x.C) == 1 {
				vals = append(vals, NamedTerm{v.Name, x.C[0]})
			}
		}
		g.e.oblige(&Obl{Name: "lemma." + l.Name, Kind: "lemma", Props: l.Props, Cond: and(hyps...), Goal: goal, Pos: l.Where, Fn: "lemmas", Values: vals})
		g.e.oblige(&Obl{Name: "lemma." + l.Name + "#vacuity:hyps-sat", Kind: "vacuity", Props: l.Props, Cond: and(hyps...), Goal: tTrue, Vac: true, Fn: "lemmas"})
	}
	vc.Prefix = g.e.prefix()
	vc.Obls = g.e.obls
	vc.SpecErrors = g.specErrors
	vc.Callees = map[string]string{}
	return vc
}
