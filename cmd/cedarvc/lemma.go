package main

import (
	"fmt"
	"go/types"
)

// genLemmaVC turns lemmas (pure SMT facts over declared variables) into obligations.
func genLemmaVC(ld *Loader, specs *Specs, ls []*Lemma) *FuncVC {
	g := ld.newGen(specs, GenOpts{})
	vc := &FuncVC{Key: "lemmas", Label: "lemmas"}
	tr := &Trans{g: g, e: g.e, id: 0, label: "lemma", callOrd: map[string]int{}}
	tr.rc = tTrue
	st := g.initState()
	tr.st = st
	tr.pre = st
	for _, l := range ls {
		env := tr.newEnv(st, st)
		if p := ld.pkgByPath[l.Pkg]; p != nil {
			env.pkg = p
			tr.pkg = p
		}
		tr.label = "lemma." + l.Name
		for _, v := range l.Vars {
			var t types.Type
			switch v.Type {
			case "int":
				t = tInt
			case "bool":
				t = tBool
			case "string", "bytes":
				t = tString
			case "real":
				t = types.Typ[types.Float64]
			case "[]byte":
				t = types.NewSlice(types.Typ[types.Uint8])
			default:
				t = ld.lookupType(v.Type)
			}
			if t == nil {
				g.specErrors = append(g.specErrors, fmt.Sprintf("lemma %s: unknown type %s", l.Name, v.Type))
				continue
			}
			val := Val{T: t}
			for _, c := range comps(t) {
				val.C = append(val.C, g.e.declare(fmt.Sprintf("lem$%s$%s%s", l.Name, v.Name, c.Suffix), c.Sort))
			}
			env.vars[v.Name] = val
		}
		var hyps []Term
		g.hyps = nil
		for _, h := range l.Hyps {
			hyps = append(hyps, env.evalBool(h.AST))
			hh := h
			snap := env.clone()
			g.hyps = append(g.hyps, func(k Term) Term {
				c := snap.clone()
				c.mode, c.instK, c.pol = 2, k, 1
				return c.evalBool(hh.AST)
			})
		}
		if l.Concl == nil {
			continue
		}
		goal, extra := tr.goalClause(env, l.Concl.AST)
		var vals []NamedTerm
		for _, v := range l.Vars {
			if x, ok := env.vars[v.Name]; ok {
				tr.assumeTyped(x, st, tTrue)
			}
			if x, ok := env.vars[v.Name]; ok && len(x.C) == 1 {
				vals = append(vals, NamedTerm{v.Name, x.C[0]})
			}
		}
		g.e.oblige(&Obl{Name: "lemma." + l.Name, Kind: "lemma", Props: l.Props, Cond: and(hyps...), Goal: goal, Pos: l.Where, Fn: "lemmas", Values: vals, Extra: extra})
		g.e.oblige(&Obl{Name: "lemma." + l.Name + "#vacuity:hyps-sat", Kind: "vacuity", Props: l.Props, Cond: and(hyps...), Goal: tTrue, Vac: true, Fn: "lemmas"})
	}
	vc.Prefix = g.e.prefix()
	vc.Obls = g.e.obls
	vc.SpecErrors = g.specErrors
	vc.Callees = map[string]string{}
	return vc
}
