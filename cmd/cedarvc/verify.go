package main

import (
	"fmt"
	"go/types"
	"strings"

	"golang.org/x/tools/go/ssa"
)

// FuncVC is the generated verification condition set for one function.
type FuncVC struct {
	Key        string
	Label      string
	Prefix     string
	Obls       []*Obl
	Notes      []string
	Callees    map[string]string
	SpecErrors []string
	Abstracted map[string]int
	Contract   *Contract
	GenErr     string
	Instrs     int
}

func (ld *Loader) newGen(specs *Specs, opts GenOpts) *Gen {
	return &Gen{ld: ld, specs: specs, e: newEmitter(), touched: map[string]Sort{}, strLits: map[string]Term{},
		typeIDs: map[string]int{}, frSeen: map[string]bool{}, opts: opts, abstracted: map[string]int{}, calleesUsed: map[string]string{}}
}

func (g *Gen) nextBound() int { g.boundN++; return g.boundN }

func (g *Gen) rootOf(e *Emitter, r Term) Term {
	f := e.declareFun("root", []Sort{SInt}, SInt)
	return ite(gt(r, intT(0)), r, Term{fmt.Sprintf("(%s %s)", f, r.S), SInt})
}

// genFunction generates the VCs of fn against its contract ct (which may be nil for a pure safety sweep).
func genFunction(ld *Loader, specs *Specs, fn *ssa.Function, ct *Contract, opts GenOpts) (vc *FuncVC) {
	g := ld.newGen(specs, opts)
	g.topKey = fn.String()
	vc = &FuncVC{Key: fn.String(), Label: shortFn(fn), Contract: ct}
	defer func() {
		if r := recover(); r != nil {
			vc.GenErr = fmt.Sprintf("generator panic: %v", r)
			vc.Notes = g.e.notes
		}
	}()
	for _, b := range fn.Blocks {
		vc.Instrs += len(b.Instrs)
	}
	if fn.Blocks == nil {
		vc.GenErr = "function has no body"
		return vc
	}
	tr := g.newTrans(fn, true)
	tr.contract = ct
	e := g.e
	st := g.initState()
	rc := tTrue
	tr.rc = rc
	tr.st = st
	// watermark
	wm0 := st.get(e, "$wm", SInt)
	e.assertRaw(ge(wm0, intT(2)))
	// parameters
	var params []Val
	for i, p := range fn.Params {
		var v Val
		pt := p.Type()
		if ptr, ok := under(pt).(*types.Pointer); ok && !isObjType(ptr.Elem()) {
			// pointer to a scalar location: private cell
			key := fmt.Sprintf("L$P$%s", p.Name())
			v = Val{T: pt, Addr: &Addr{Kind: AddrCell, Key: key, T: ptr.Elem()}}
			cell := tr.freshVal(ptr.Elem(), "pcell$"+p.Name(), st, rc)
			tr.writeCell(st, key, ptr.Elem(), cell)
		} else {
			v = tr.freshVal(pt, "p$"+p.Name(), st, rc)
		}
		if i == 0 && fn.Signature.Recv() != nil && isPointer(pt) && len(v.C) == 1 {
			e.assertRaw(gt(v.C[0], intT(0))) // receiver is non-nil (assumed)
		}
		params = append(params, v)
	}
	for _, fv := range fn.FreeVars {
		// free variables of a closure verified on its own: unknown
		if ptr, ok := under(fv.Type()).(*types.Pointer); ok && !isObjType(ptr.Elem()) {
			key := fmt.Sprintf("L$F$%s", fv.Name())
			cell := tr.freshVal(ptr.Elem(), "fcell$"+fv.Name(), st, rc)
			tr.writeCell(st, key, ptr.Elem(), cell)
			tr.freeVars[fv] = Val{T: fv.Type(), Addr: &Addr{Kind: AddrCell, Key: key, T: ptr.Elem()}}
		} else {
			tr.freeVars[fv] = tr.freshVal(fv.Type(), "fv$"+fv.Name(), st, rc)
		}
	}
	tr.params = params
	tr.pre = st.clone()
	// axioms
	for _, ax := range specs.Axioms {
		env := tr.newEnv(tr.pre, tr.pre)
		env.pkg = tr.pkg
		e.assertRaw(env.evalBool(ax.AST))
	}
	// requires
	if ct != nil {
		for _, rq := range ct.Requires {
			env := tr.topEnv(tr.pre)
			env.pre = tr.pre
			t := env.evalBool(rq.AST)
			e.assume(rc, t)
		}
	}
	g.touched = map[string]Sort{}
	tr.run(st, rc, params)
	// ---- return obligations ----
	if ct != nil {
		resNames := resultNames(ct, fn.Signature)
		_ = resNames
		for _, en := range ct.Ensures {
			var parts []Term
			for _, r := range tr.rets {
				env := tr.topEnv(r.st)
				env.reach = r.cond
				packed := Val{T: fn.Signature.Results()}
				for _, rv := range r.results {
					packed.C = append(packed.C, rv.C...)
				}
				tr.rc = r.cond
				tr.bindResults(env, ct, fn.Signature, packed)
				t := env.evalBool(en.AST)
				parts = append(parts, implies(r.cond, t))
			}
			e.oblige(&Obl{Name: fmt.Sprintf("%s#ensures:%s", tr.label, en.Label), Kind: "ensures", Props: en.Props,
				Cond: tTrue, Goal: and(parts...), Pos: en.Where, Fn: tr.label, Replay: en.Replay})
		}
		if ct.HasAssigns {
			tr.frameObligations(ct)
		}
	}
	// vacuity guards
	var rcs []Term
	for _, r := range tr.rets {
		rcs = append(rcs, r.cond)
	}
	e.oblige(&Obl{Name: tr.label + "#vacuity:requires-sat", Kind: "vacuity", Cond: tTrue, Goal: tTrue, Vac: true, Fn: tr.label, Props: tr.propsOf()})
	if len(rcs) > 0 {
		e.oblige(&Obl{Name: tr.label + "#vacuity:return-reachable", Kind: "vacuity", Cond: or(rcs...), Goal: tTrue, Vac: true, Fn: tr.label, Props: tr.propsOf()})
	}
	vc.Prefix = e.prefix()
	vc.Obls = e.obls
	vc.Notes = e.notes
	vc.Callees = g.calleesUsed
	vc.SpecErrors = g.specErrors
	vc.Abstracted = g.abstracted
	return vc
}

func (tr *Trans) frameObligations(ct *Contract) {
	g, e := tr.g, tr.e
	env := tr.topEnv(tr.pre)
	env.useOld = true
	tr.rc = tTrue
	tr.st = tr.pre
	ts, all := tr.allTargets(env, ct)
	if all {
		return
	}
	wm0 := tr.pre.get(e, "$wm", SInt)
	for _, key := range sortedKeys(g.touched) {
		sort := g.touched[key]
		if keyIsLocal(key) || key == "$wm" {
			continue
		}
		var mine []target
		whole := false
		for _, t := range ts {
			if t.key == key {
				mine = append(mine, t)
				if t.whole {
					whole = true
				}
			}
		}
		if whole {
			continue
		}
		pre := tr.pre.get(e, key, sort)
		var parts []Term
		var vals []NamedTerm
		isArr := strings.HasPrefix(string(sort), "(Array")
		if !isArr {
			for _, r := range tr.rets {
				parts = append(parts, implies(r.cond, eq(r.st.get(e, key, sort), pre)))
			}
		} else {
			r0 := e.fresh("frame.r", SInt)
			vals = append(vals, NamedTerm{"object", r0})
			inner := sort.elem()
			twoLevel := strings.HasPrefix(string(inner), "(Array")
			var allowedWhole []Term
			for _, t := range mine {
				if !t.ranged {
					allowedWhole = append(allowedWhole, eq(r0, t.ref))
				}
			}
			root := g.rootOf(e, r0)
			guard := and(gt(root, intT(0)), lt(root, wm0))
			for _, r := range tr.rets {
				post := r.st.get(e, key, sort)
				var same Term
				if twoLevel {
					// index sort
					isort := Sort(strings.Fields(strings.TrimPrefix(string(inner), "(Array "))[0])
					i0 := e.fresh("frame.i", isort)
					var inRange []Term
					for _, t := range mine {
						if t.ranged && isort == SInt {
							inRange = append(inRange, and(eq(r0, t.ref), le(t.lo, i0), lt(i0, t.hi)))
						}
					}
					same = or(or(inRange...), eq(sel(sel(post, r0), i0), sel(sel(pre, r0), i0)))
				} else {
					same = eq(sel(post, r0), sel(pre, r0))
				}
				parts = append(parts, implies(and(r.cond, guard), or(or(allowedWhole...), same)))
			}
		}
		e.oblige(&Obl{Name: fmt.Sprintf("%s#frame:%s", tr.label, key), Kind: "frame", Props: tr.propsOf(), Cond: tTrue,
			Goal: and(parts...), Fn: tr.label, Pos: ct.Where, Values: vals})
	}
	if g.havocAllSeen {
		e.oblige(&Obl{Name: fmt.Sprintf("%s#frame:no-unknown-effects", tr.label), Kind: "frame", Props: tr.propsOf(), Cond: tTrue,
			Goal: tFalse, Fn: tr.label, Pos: ct.Where})
	}
}
