package main

import (
	"go/token"
	"strconv"
	"fmt"
	"go/types"
	"strings"

	"golang.org/x/tools/go/ssa"
)

// FuncVC is the generated verification condition set for one function.
type FuncVC struct {
	Key        string
	Label      string
	Prefix     string
	Decls      []string // with Asserts: the prefix in pieces, so an obligation can be given only the assumptions that precede it
	Asserts    []string
	Obls       []*Obl
	Notes      []string
	Callees    map[string]string
	SpecErrors []string
	Abstracted map[string]int
	Contract   *Contract
	GenErr     string
	Instrs     int
	AutoReplay *AutoReplay // how to call the function with model values (free functions over strings/ints/bools only)
}

// AutoReplay describes a call of the real function with the solver's values for its parameters.
type AutoReplay struct {
	PkgDir, PkgName, Func string
	Params            []AutoParam
}

type AutoParam struct {
	Name, Kind string // Kind: string | int | bool
	GoType     string
}

func (ld *Loader) newGen(specs *Specs, opts GenOpts) *Gen {
	return &Gen{ld: ld, specs: specs, e: newEmitter(), touched: map[string]Sort{}, strLits: map[string]Term{},
		touchedAll: map[string]Sort{}, viewSyms: map[string]string{}, typeIDs: map[string]int{}, frSeen: map[string]bool{}, opts: opts, abstracted: map[string]int{}, calleesUsed: map[string]string{}}
}

func (g *Gen) nextBound() int { g.boundN++; return g.boundN }

func (g *Gen) rootOf(e *Emitter, r Term) Term {
	f := e.declareFun("root", []Sort{SInt}, SInt)
	return ite(gt(r, intT(0)), r, Term{fmt.Sprintf("(%s %s)", f, r.S), SInt})
}

// genFunction generates the VCs of fn against its contract ct (which may be nil for a pure safety sweep).
func genFunction(ld *Loader, specs *Specs, fn *ssa.Function, ct *Contract, opts GenOpts) (vc *FuncVC) {
	g := ld.newGen(specs, opts)
	g.topKey = fn.String()
	vc = &FuncVC{Key: fn.String(), Label: shortFn(fn), Contract: ct}
	defer func() {
		if r := recover(); r != nil {
			vc.GenErr = fmt.Sprintf("generator panic: %v", r)
			vc.Notes = g.e.notes
		}
	}()
	for _, b := range fn.Blocks {
		for _, in := range b.Instrs {
			if _, dbg := in.(*ssa.DebugRef); !dbg {
				vc.Instrs++
			}
		}
	}
	if fn.Blocks == nil {
		vc.GenErr = "function has no body"
		return vc
	}
	tr := g.newTrans(fn, true)
	tr.contract = ct
	g.topTr = tr
	e := g.e
	st := g.initState()
	rc := tTrue
	tr.rc = rc
	tr.st = st
	// watermark
	wm0 := st.get(e, "$wm", SInt)
	e.assertRaw(ge(wm0, intT(2)))
	// parameters
	var params []Val
	for i, p := range fn.Params {
		var v Val
		pt := p.Type()
		if ptr, ok := under(pt).(*types.Pointer); ok && !isObjType(ptr.Elem()) {
			// pointer to a scalar location: private cell
			key := fmt.Sprintf("L$P$%s", p.Name())
			v = Val{T: pt, Addr: &Addr{Kind: AddrCell, Key: key, T: ptr.Elem()}}
			cell := tr.freshVal(ptr.Elem(), "pcell$"+p.Name(), st, rc)
			tr.writeCell(st, key, ptr.Elem(), cell)
		} else {
			v = tr.freshVal(pt, "p$"+p.Name(), st, rc)
		}
		if i == 0 && fn.Signature.Recv() != nil && isPointer(pt) && len(v.C) == 1 {
			e.assertRaw(gt(v.C[0], intT(0))) // receiver is non-nil (assumed)
		}
		params = append(params, v)
	}
	for _, fv := range fn.FreeVars {
		// free variables of a closure verified on its own: unknown
		if ptr, ok := under(fv.Type()).(*types.Pointer); ok && !isObjType(ptr.Elem()) {
			key := fmt.Sprintf("L$F$%s", fv.Name())
			cell := tr.freshVal(ptr.Elem(), "fcell$"+fv.Name(), st, rc)
			tr.writeCell(st, key, ptr.Elem(), cell)
			tr.freeVars[fv] = Val{T: fv.Type(), Addr: &Addr{Kind: AddrCell, Key: key, T: ptr.Elem()}}
		} else {
			tr.freeVars[fv] = tr.freshVal(fv.Type(), "fv$"+fv.Name(), st, rc)
		}
	}
	tr.params = params
	// replay recipe: a free function whose parameters are all strings, integers or booleans can be called with the
	// solver's values directly; those values are requested with every safety obligation
	if fn.Signature.Recv() == nil && fn.Parent() == nil && fn.Pkg != nil && len(fn.Params) > 0 {
		ar := &AutoReplay{PkgName: fn.Pkg.Pkg.Name(), Func: fn.Name(), PkgDir: strings.TrimPrefix(strings.TrimPrefix(fn.Pkg.Pkg.Path(), repoModule), "/")}
		var vals []NamedTerm
		ok := true
		for i, p := range fn.Params {
			b, isBasic := under(p.Type()).(*types.Basic)
			if !isBasic || len(params[i].C) != 1 {
				ok = false
				break
			}
			switch {
			case b.Info()&types.IsString != 0:
				ar.Params = append(ar.Params, AutoParam{Name: p.Name(), Kind: "string", GoType: types.TypeString(p.Type(), func(*types.Package) string { return "" })})
				vals = append(vals, NamedTerm{"in$" + p.Name() + "$len", g.strLen(e, params[i].C[0])})
				for k := 0; k < 48; k++ {
					vals = append(vals, NamedTerm{fmt.Sprintf("in$%s$%d", p.Name(), k), g.strAt(e, params[i].C[0], intT(int64(k)))})
				}
			case b.Info()&types.IsInteger != 0:
				ar.Params = append(ar.Params, AutoParam{Name: p.Name(), Kind: "int", GoType: types.TypeString(p.Type(), func(*types.Package) string { return "" })})
				vals = append(vals, NamedTerm{"in$" + p.Name(), params[i].C[0]})
			case b.Info()&types.IsBoolean != 0:
				ar.Params = append(ar.Params, AutoParam{Name: p.Name(), Kind: "bool", GoType: types.TypeString(p.Type(), func(*types.Package) string { return "" })})
				vals = append(vals, NamedTerm{"in$" + p.Name(), params[i].C[0]})
			default:
				ok = false
			}
		}
		if ok {
			vc.AutoReplay = ar
			g.replayVals = vals
		}
	}
	// no lock has been released by this function yet (see Trans.interfere)
	st.set("L$relsd$sync.Mutex", tFalse)
	st.set("L$relsd$sync.RWMutex", tFalse)
	tr.pre = st.clone()
	// axioms
	for _, ax := range specs.Axioms {
		if p := g.opts.Prop; p != "" && len(ax.Props) > 0 && !hasProp(ax.Props, p) {
			continue // an axiom only the named properties' proofs need (quantified axioms perturb unrelated queries)
		}
		env := tr.newEnv(tr.pre, tr.pre)
		env.pkg = tr.pkg
		e.assertRaw(env.evalBool(ax.AST))
	}
	// requires
	if ct != nil {
		for _, rq := range ct.Requires {
			env := tr.topEnv(tr.pre)
			env.pre = tr.pre
			tr.assumeClause(env, rc, rq.AST)
		}
	}
	g.touched = map[string]Sort{}
	tr.run(st, rc, params)
	// ---- return obligations ----
	if ct != nil {
		resNames := resultNames(ct, fn.Signature)
		_ = resNames
		for _, en := range ct.Ensures {
			var parts []Term
			var extras []Term
			for _, r := range tr.rets {
				env := tr.topEnv(r.st)
				env.reach = r.cond
				packed := Val{T: fn.Signature.Results()}
				for _, rv := range r.results {
					packed.C = append(packed.C, rv.C...)
				}
				tr.rc = r.cond
				if r.instr != nil {
					tr.curInstr, tr.cur = r.instr, r.block // locals named in the clause are read at this return
				}
				tr.bindResults(env, ct, fn.Signature, packed)
				t, extra := tr.goalClause(env, en.AST)
				extras = append(extras, extra...)
				parts = append(parts, implies(r.cond, t))
			}
			e.oblige(&Obl{Name: fmt.Sprintf("%s#ensures:%s", tr.label, en.Label), Kind: "ensures", Props: en.Props,
				Cond: tTrue, Goal: and(parts...), Pos: en.Where, Fn: tr.label, Replay: en.Replay, Extra: extras})
		}
		if ct.HasAssigns {
			tr.frameObligations(ct)
		}
		if len(ct.Preserves) > 0 && !ct.Trusted && !ct.External {
			tr.preservesObligations(ct)
		}
	}
	// vacuity guards
	var rcs []Term
	for _, r := range tr.rets {
		rcs = append(rcs, r.cond)
	}
	e.oblige(&Obl{Name: tr.label + "#vacuity:requires-sat", Kind: "vacuity", Cond: tTrue, Goal: tTrue, Vac: true, Fn: tr.label, Props: tr.propsOf()})
	if len(rcs) > 0 {
		e.oblige(&Obl{Name: tr.label + "#vacuity:return-reachable", Kind: "vacuity", Cond: or(rcs...), Goal: tTrue, Vac: true, Fn: tr.label, Props: tr.propsOf()})
	}
	if ct != nil {
		for _, nc := range ct.NoCalls {
			// always present (so the baseline tracks it); the per-call-site obligations above carry the failures
			e.oblige(&Obl{Name: fmt.Sprintf("%s#nocall:%s", tr.label, nc.Label), Kind: "nocall", Props: nc.Props, Cond: tTrue, Goal: tTrue, Pos: nc.Where, Fn: tr.label})
		}
		ctxFlowObligations(g.ld, e, fn, ct, tr.label)
		for _, cc := range ct.CallCounts {
			// structural: the number of call sites of a callee in this function is fixed by the contract
			fs := strings.Fields(cc.Src)
			want, _ := strconv.Atoi(fs[0])
			n := 0
			if len(fs) == 2 {
				for _, b := range fn.Blocks {
					for _, in := range b.Instrs {
						if c, ok := in.(ssa.CallInstruction); ok {
							k := ""
							cm := c.Common()
							if cm.IsInvoke() {
								k = ifaceMethodKey(cm.Value.Type(), cm.Method.Name())
							} else if sc := cm.StaticCallee(); sc != nil {
								k = sc.String()
							}
							if k != "" && strings.HasSuffix(k, fs[1]) {
								n++
							}
						}
					}
				}
			}
			goal := tFalse
			if n == want {
				goal = tTrue
			}
			e.oblige(&Obl{Name: fmt.Sprintf("%s#callcount:%s", tr.label, cc.Label), Kind: "nocall", Props: cc.Props, Cond: tTrue, Goal: goal, Pos: cc.Where, Fn: tr.label,
				Values: []NamedTerm{{fmt.Sprintf("call sites found: %d, contract says %d", n, want), tTrue}}})
		}
		// an in-body assert that matches no call site asserts nothing: that is a broken contract, not a pass
		for _, as := range ct.Asserts {
			if !as.Deep && !g.assertHit[as] {
				g.specErrors = append(g.specErrors, fmt.Sprintf("%s: assert %s call %s #%d (%s) matches no call site", tr.label, as.When, as.Callee, as.Ordinal, as.Clause.Label))
			}
		}
	}
	if vc.AutoReplay != nil {
		for _, o := range e.obls {
			if isSafetyKind(o.Kind) && o.Kind != "alloc-bound" && o.Kind != "recursion" {
				o.Values = append(o.Values, g.replayVals...)
			}
		}
	}
	vc.Prefix = e.prefix()
	vc.Decls, vc.Asserts = e.decls, e.asserts
	vc.Obls = e.obls
	vc.Notes = e.notes
	vc.Callees = g.calleesUsed
	vc.SpecErrors = g.specErrors
	vc.Abstracted = g.abstracted
	return vc
}

// frameTargets evaluates the assigns clause of the function under verification in its entry state (cached).
func (tr *Trans) frameTargets() ([]target, bool) {
	top := tr.g.topTr
	if top == nil || top.contract == nil || !top.contract.HasAssigns {
		return nil, true
	}
	if top.frameDone {
		return top.frameTs, top.frameAll
	}
	env := top.topEnv(top.pre)
	env.useOld = true
	savedRC, savedSt := top.rc, top.st
	top.rc, top.st = tTrue, top.pre
	ts, all := top.allTargets(env, top.contract)
	top.rc, top.st = savedRC, savedSt
	top.frameTs, top.frameAll, top.frameDone = ts, all, true
	return ts, all
}

// frameFormula states that key is unchanged between pre and cur outside the assigns targets, at object r / index i.
// ok=false when the whole key may change.
func (tr *Trans) frameFormula(key string, sort Sort, ts []target, pre, cur, r0, i0 Term) (Term, bool) {
	g, e := tr.g, tr.e
	var mine []target
	for _, t := range ts {
		if t.key == key {
			if t.whole && !t.cond.ok() {
				return tTrue, false
			}
			mine = append(mine, t)
		}
	}
	condOf := func(t target) Term {
		if t.cond.ok() {
			return t.cond
		}
		return tTrue
	}
	if !strings.HasPrefix(string(sort), "(Array") {
		var allowed []Term
		for _, t := range mine {
			allowed = append(allowed, condOf(t))
		}
		return or(or(allowed...), eq(cur, pre)), true
	}
	wm0 := g.topTr.pre.get(e, "$wm", SInt)
	inner := sort.elem()
	var allowedWhole []Term
	for _, t := range mine {
		if t.whole {
			allowedWhole = append(allowedWhole, condOf(t))
		} else if !t.ranged {
			allowedWhole = append(allowedWhole, and(condOf(t), eq(r0, t.ref)))
		}
	}
	root := g.rootOf(e, r0)
	guard := and(gt(root, intT(0)), lt(root, wm0))
	var same Term
	if strings.HasPrefix(string(inner), "(Array") {
		var inRange []Term
		for _, t := range mine {
			if t.ranged && i0.Sort == SInt {
				inRange = append(inRange, and(condOf(t), eq(r0, t.ref), le(t.lo, i0), lt(i0, t.hi)))
			}
		}
		same = or(or(inRange...), eq(sel(sel(cur, r0), i0), sel(sel(pre, r0), i0)))
	} else {
		same = eq(sel(cur, r0), sel(pre, r0))
	}
	return implies(guard, or(or(allowedWhole...), same)), true
}

func innerIndexSort(sort Sort) Sort {
	inner := sort.elem()
	if !strings.HasPrefix(string(inner), "(Array") {
		return SInt
	}
	return Sort(strings.Fields(strings.TrimPrefix(string(inner), "(Array "))[0])
}

// loopFrame checks (st != nil) or assumes (quantified) the frame of the enclosing contract for the keys a loop havocs.
func (tr *Trans) loopFrame(li *loopInfo, mod map[string]bool, st *State, cond Term, what string, assume bool) {
	g, e := tr.g, tr.e
	ts, all := tr.frameTargets()
	if all || g.topTr == nil {
		return
	}
	groups := map[string][]Term{}
	var order []string
	for _, key := range sortedKeys(mod) {
		sort, ok := g.touchedAll[key]
		if !ok || keyIsLocal(key) || key == "$wm" {
			continue
		}
		pre := g.topTr.pre.get(e, key, sort)
		cur := st.get(e, key, sort)
		isArr := strings.HasPrefix(string(sort), "(Array")
		if assume {
			if !isArr {
				if f, ok := tr.frameFormula(key, sort, ts, pre, cur, Term{}, Term{}); ok {
					e.assume(cond, f)
				}
				continue
			}
			r := Term{"fr!r", SInt}
			i := Term{"fr!i", innerIndexSort(sort)}
			f, ok := tr.frameFormula(key, sort, ts, pre, cur, r, i)
			if !ok {
				continue
			}
			pat := fmt.Sprintf("(select %s fr!r)", cur.S)
			q := fmt.Sprintf("(forall ((fr!r Int) (fr!i %s)) (! %s :pattern (%s)))", i.Sort, f.S, pat)
			if !strings.HasPrefix(string(sort.elem()), "(Array") {
				q = fmt.Sprintf("(forall ((fr!r Int)) (! %s :pattern (%s)))", f.S, pat)
			}
			e.assume(cond, Term{q, SBool})
			continue
		}
		var r0, i0 Term
		if isArr {
			r0 = e.fresh("lframe.r", SInt)
			i0 = e.fresh("lframe.i", innerIndexSort(sort))
		}
		f, ok := tr.frameFormula(key, sort, ts, pre, cur, r0, i0)
		if !ok {
			continue
		}
		grp := frameGroup(key)
		if _, seen := groups[grp]; !seen {
			order = append(order, grp)
		}
		groups[grp] = append(groups[grp], f)
	}
	for _, grp := range order {
		e.oblige(&Obl{Name: fmt.Sprintf("%s#loop%d.frame-%s:%s", tr.label, li.ordinal, what, grp), Kind: "frame", Props: g.topTr.framePropsOf(),
			Cond: cond, Goal: and(groups[grp]...), Fn: tr.label, Pos: g.topTr.contract.Where})
	}
}

func frameGroup(key string) string {
	if !strings.HasPrefix(key, "elems$") && !strings.HasPrefix(key, "G$") && !strings.HasPrefix(key, "map$") {
		if i := strings.Index(key, "."); i >= 0 {
			if j := strings.Index(key[i+1:], "."); j >= 0 {
				return key[:i+1+j] + ".*"
			}
		}
	}
	return key
}

func (tr *Trans) frameObligations(ct *Contract) {
	g, e := tr.g, tr.e
	ts, all := tr.frameTargets()
	if all {
		return
	}
	// one obligation per group of keys: fields of one struct type are grouped, element arrays, maps and ghosts stand alone
	groups := map[string][]Term{}
	groupVals := map[string][]NamedTerm{}
	var order []string
	for _, key := range sortedKeys(g.touched) {
		sort := g.touched[key]
		if keyIsLocal(key) || key == "$wm" {
			continue
		}
		pre := tr.pre.get(e, key, sort)
		var parts []Term
		var vals []NamedTerm
		var r0, i0 Term
		if strings.HasPrefix(string(sort), "(Array") {
			r0 = e.fresh("frame.r", SInt)
			i0 = e.fresh("frame.i", innerIndexSort(sort))
			vals = append(vals, NamedTerm{"object", r0})
		}
		skip := false
		for _, r := range tr.rets {
			f, ok := tr.frameFormula(key, sort, ts, pre, r.st.get(e, key, sort), r0, i0)
			if !ok {
				skip = true
				break
			}
			parts = append(parts, implies(r.cond, f))
		}
		if skip {
			continue
		}
		grp := key
		if !strings.HasPrefix(key, "elems$") && !strings.HasPrefix(key, "G$") && !strings.HasPrefix(key, "map$") {
			if i := strings.Index(key, "."); i >= 0 {
				if j := strings.Index(key[i+1:], "."); j >= 0 {
					grp = key[:i+1+j] + ".*" // pkg.Type.*
				}
			}
		}
		if _, ok := groups[grp]; !ok {
			order = append(order, grp)
		}
		groups[grp] = append(groups[grp], and(parts...))
		groupVals[grp] = append(groupVals[grp], vals...)
	}
	for _, grp := range order {
		e.oblige(&Obl{Name: fmt.Sprintf("%s#frame:%s", tr.label, grp), Kind: "frame", Props: unionProps(tr.propsOf(), ct.FrameProps), Cond: tTrue,
			Goal: and(groups[grp]...), Fn: tr.label, Pos: ct.Where, Values: groupVals[grp]})
	}
	if g.havocAllSeen {
		e.oblige(&Obl{Name: fmt.Sprintf("%s#frame:no-unknown-effects", tr.label), Kind: "frame", Props: unionProps(tr.propsOf(), ct.FrameProps), Cond: tTrue,
			Goal: tFalse, Fn: tr.label, Pos: ct.Where})
	}
}

// preservesObligations: a verified contract that says `preserves T` must leave every field of every T object that
// existed at entry unchanged: the keys it wrote are compared with the entry state, and every havoc-all it performed
// (a callee without assigns) must itself have kept T.
func (tr *Trans) preservesObligations(ct *Contract) {
	g, e := tr.g, tr.e
	for _, pfx := range ct.Preserves {
		var parts []Term
		var vals []NamedTerm
		for _, key := range sortedKeys(g.touchedAll) {
			if !strings.HasPrefix(key, pfx) {
				continue
			}
			sort := g.touchedAll[key]
			pre := tr.pre.get(e, key, sort)
			var r0, i0 Term
			if strings.HasPrefix(string(sort), "(Array") {
				r0 = e.fresh("keep.r", SInt)
				i0 = e.fresh("keep.i", innerIndexSort(sort))
				vals = append(vals, NamedTerm{"object", r0})
			}
			for _, r := range tr.rets {
				f, ok := tr.frameFormula(key, sort, nil, pre, r.st.get(e, key, sort), r0, i0)
				if ok {
					parts = append(parts, implies(r.cond, f))
				}
			}
		}
		kept := true
		for _, ep := range g.havocEpochs {
			if !hasAnyPrefix(pfx, ep.keep) {
				kept = false
			}
		}
		goal := and(parts...)
		if !kept {
			goal = tFalse
		}
		e.oblige(&Obl{Name: fmt.Sprintf("%s#preserves:%s*", tr.label, pfx), Kind: "frame", Props: tr.propsOf(), Cond: tTrue,
			Goal: goal, Fn: tr.label, Pos: ct.Where, Values: vals})
	}
}

// genRefinement checks that the contract of a concrete method implies the contract of the interface method it
// implements, under a coupling relation between the interface-level ghost state and the concrete fields.
func genRefinement(ld *Loader, specs *Specs, rf *Refinement) *FuncVC {
	implKey := expandFuncKey(rf.Impl, "")
	if fn := ld.lookupFunc(rf.Impl); fn == nil {
		// allow short names relative to the cedar module
		for k := range ld.funcs {
			if strings.HasSuffix(k, rf.Impl) && strings.Contains(k, repoModule) {
				implKey = k
			}
		}
	} else {
		implKey = rf.Impl
	}
	label := "refine " + strings.ReplaceAll(rf.Iface, repoModule+"/", "") + " by " + strings.ReplaceAll(implKey, repoModule+"/", "")
	vc := &FuncVC{Key: label, Label: label}
	fn := ld.lookupFunc(implKey)
	ict, mct := specs.Contracts[rf.Iface], specs.Contracts[implKey]
	if fn == nil || ict == nil || mct == nil {
		vc.GenErr = fmt.Sprintf("refinement needs the function and both contracts (fn=%v iface=%v impl=%v)", fn != nil, ict != nil, mct != nil)
		return vc
	}
	g := ld.newGen(specs, GenOpts{})
	defer func() {
		if r := recover(); r != nil {
			vc.GenErr = fmt.Sprintf("generator panic: %v", r)
		}
	}()
	tr := g.newTrans(fn, true)
	tr.contract = ict
	tr.label = label
	g.topTr = tr
	vc.Contract = ict
	e := g.e
	st := g.initState()
	tr.rc, tr.st = tTrue, st
	e.assertRaw(ge(st.get(e, "$wm", SInt), intT(2)))
	var params []Val
	names := append([]string{"self"}, ict.Params...)
	for i, p := range fn.Params {
		v := tr.freshVal(p.Type(), "p$"+p.Name(), st, tTrue)
		if i == 0 && len(v.C) == 1 {
			e.assertRaw(gt(v.C[0], intT(0)))
		}
		params = append(params, v)
	}
	// the interface contract speaks about the interface value: box the receiver
	tr.params = params
	tr.nameOverride = names
	tr.pre = st.clone()
	// `self` in the interface contract is the interface value; bind it to the boxed receiver, and the name of the
	// concrete receiver (for the coupling) to the pointer itself
	recvT := fn.Params[0].Type()
	id := g.typeID(recvT)
	box := e.declareFun(fmt.Sprintf("box$%d", id), []Sort{SInt}, SInt)
	unbox := e.declareFun(fmt.Sprintf("unbox$%d", id), []Sort{SInt}, SInt)
	boxed := Term{fmt.Sprintf("(%s %s)", box, params[0].C[0].S), SInt}
	e.assertRaw(and(eq(Term{fmt.Sprintf("(%s %s)", unbox, boxed.S), SInt}, params[0].C[0]), not(eq(boxed, intT(0))), eq(tr.dynType(boxed), intT(int64(id)))))
	mkEnv := func(post *State) *Env {
		env := tr.topEnv(post)
		env.vars["self"] = Val{T: types.NewInterfaceType(nil, nil), C: []Term{boxed}}
		env.vars[fn.Params[0].Name()] = params[0]
		env.vars["impl"] = params[0]
		if p := ld.pkgByPath[rf.Pkg]; p != nil {
			env.pkg = p
		}
		env.contract = ict
		return env
	}
	if rf.Coupling != nil {
		e.assume(tTrue, mkEnv(tr.pre).evalBool(rf.Coupling))
	}
	for _, rq := range ict.Requires {
		e.assume(tTrue, mkEnv(tr.pre).evalBool(rq.AST))
	}
	if rf.Assuming != nil {
		e.assume(tTrue, mkEnv(tr.pre).evalBool(rf.Assuming))
		e.note("refinement %s assumes: %s", label, rf.AssumingSrc)
	}
	g.touched = map[string]Sort{}
	res := tr.applyContract(mct, fn, fn.Signature, params, nil, fn.Signature.Results(), implKey, false)
	props := unionProps(ict.Props, mct.Props)
	for _, o := range e.obls {
		o.Props = props
	}
	// interface-level ghost variables that the interface method may assign but the implementation's contract does not
	// mention are *defined* by the coupling relation in the post-state (data refinement): give them fresh values,
	// require that some value satisfies the coupling, then assume it.
	implAssigns := map[string]bool{}
	for _, a := range mct.AssignsSrc {
		implAssigns[strings.TrimSpace(a)] = true
	}
	var defined []string
	for _, a := range ict.AssignsSrc {
		a = strings.TrimSpace(a)
		if gv, ok := specs.Ghosts[a]; ok && !implAssigns[a] {
			defined = append(defined, gv.Name)
		}
	}
	if rf.Coupling != nil && len(defined) > 0 {
		// existence: exists values of the defined ghosts such that coupling(post)
		probe := tr.st.clone()
		var binders []string
		for i, name := range defined {
			sort := ghostSort(specs.Ghosts[name])
			bv := Term{fmt.Sprintf("g!q%d_%s", i, name), sort}
			probe.w["G$"+name] = bv
			binders = append(binders, fmt.Sprintf("(%s %s)", bv.S, sort))
		}
		body := tr.e.quietEval(func() Term { return mkEnv(probe).evalBool(rf.Coupling) })
		e.oblige(&Obl{Name: label + "#coupling-definable", Kind: "refinement", Props: props, Cond: tTrue,
			Goal: Term{fmt.Sprintf("(exists (%s) %s)", strings.Join(binders, " "), body.S), SBool}, Pos: rf.Where, Fn: label})
		for _, name := range defined {
			sort := ghostSort(specs.Ghosts[name])
			tr.st.set("G$"+name, e.fresh("def$"+name, sort))
		}
		e.assume(tTrue, mkEnv(tr.st).evalBool(rf.Coupling))
	}
	post := tr.st
	for _, en := range ict.Ensures {
		env := mkEnv(post)
		tr.bindResults(env, ict, fn.Signature, res)
		t, extra := tr.goalClause(env, en.AST)
		e.oblige(&Obl{Name: fmt.Sprintf("%s#ensures:%s", label, en.Label), Kind: "refinement", Props: unionProps(en.Props, props), Cond: tTrue, Goal: t, Pos: en.Where, Fn: label, Extra: extra})
	}
	if rf.Coupling != nil && len(defined) == 0 {
		e.oblige(&Obl{Name: label + "#coupling-kept", Kind: "refinement", Props: props, Cond: tTrue, Goal: mkEnv(post).evalBool(rf.Coupling), Pos: rf.Where, Fn: label})
	}
	// frame: everything the implementation may assign is covered by the interface's assigns clause
	if ict.HasAssigns {
		env := mkEnv(tr.pre)
		env.useOld = true
		ts, all := tr.allTargets(env, ict)
		for _, h := range rf.Hidden {
			hts, hall := tr.targetsOf(env, h)
			if !hall {
				ts = append(ts, hts...)
			}
		}
		if rf.HiddenSrc != "" {
			e.note("refinement %s: private storage exempt from the interface frame: %s", label, rf.HiddenSrc)
		}
		tr.frameTs, tr.frameAll, tr.frameDone = ts, all, true
		tr.rets = []retInfo{{cond: tTrue, st: post}}
		if !all {
			saved := tr.contract
			tr.frameObligations(ict)
			tr.contract = saved
			for _, o := range e.obls {
				if o.Kind == "frame" {
					o.Props = props
				}
			}
		}
	}
	e.oblige(&Obl{Name: label + "#vacuity:requires-sat", Kind: "vacuity", Cond: tTrue, Goal: tTrue, Vac: true, Fn: label, Props: props})
	vc.Prefix = e.prefix()
	vc.Obls = e.obls
	vc.Notes = e.notes
	vc.Callees = g.calleesUsed
	vc.SpecErrors = g.specErrors
	vc.Abstracted = g.abstracted
	return vc
}

// genStructural: a trusted contract is an assumption about the function's effect, so its body is not translated; the
// structural clauses it carries (nocall) are still checked against the body -- every call instruction of the function and
// of the closures it defines -- so a change that makes a trusted function do something its callers' proofs rule out is seen.
func genStructural(ld *Loader, specs *Specs, fn *ssa.Function, ct *Contract) *FuncVC {
	g := ld.newGen(specs, GenOpts{})
	vc := &FuncVC{Key: fn.String(), Label: shortFn(fn), Contract: ct}
	e := g.e
	n := 0
	var scan func(f *ssa.Function)
	scan = func(f *ssa.Function) {
		for _, b := range f.Blocks {
			for _, in := range b.Instrs {
				if _, dbg := in.(*ssa.DebugRef); !dbg {
					vc.Instrs++
				}
				c, ok := in.(ssa.CallInstruction)
				if !ok {
					continue
				}
				k := ""
				cm := c.Common()
				if cm.IsInvoke() {
					k = ifaceMethodKey(cm.Value.Type(), cm.Method.Name())
				} else if sc := cm.StaticCallee(); sc != nil {
					k = sc.String()
				}
				if k == "" {
					continue
				}
				for _, nc := range ct.NoCalls {
					if strings.HasSuffix(k, nc.Src) {
						n++
						pos := ""
						if in.Pos().IsValid() {
							pp := ld.fset.Position(in.Pos())
							pos = fmt.Sprintf("%s:%d", strings.TrimPrefix(pp.Filename, "/repo/"), pp.Line)
						}
						e.oblige(&Obl{Name: fmt.Sprintf("%s#nocall:%s@%d", vc.Label, nc.Label, n), Kind: "nocall", Props: nc.Props,
							Cond: tTrue, Goal: tFalse, Pos: pos, Fn: vc.Label})
					}
				}
			}
		}
		for _, af := range f.AnonFuncs {
			scan(af)
		}
	}
	scan(fn)
	ctxFlowObligations(ld, e, fn, ct, vc.Label)
	for _, nc := range ct.NoCalls {
		e.oblige(&Obl{Name: fmt.Sprintf("%s#nocall:%s", vc.Label, nc.Label), Kind: "nocall", Props: nc.Props, Cond: tTrue, Goal: tTrue, Pos: nc.Where, Fn: vc.Label})
	}
	vc.Prefix = e.prefix()
	vc.Obls = e.obls
	vc.Callees = map[string]string{}
	return vc
}

func isContextType(t types.Type) bool {
	n, ok := t.(*types.Named)
	return ok && n.Obj().Pkg() != nil && n.Obj().Pkg().Path() == "context" && n.Obj().Name() == "Context"
}

func ctxParams(fn *ssa.Function) []*ssa.Parameter {
	var out []*ssa.Parameter
	for _, p := range fn.Params {
		if isContextType(p.Type()) {
			out = append(out, p)
		}
	}
	return out
}

// ctxFlowObligations: a structural data-flow obligation. In a function that receives a context.Context, every
// context.Context value it hands to a callee must derive from that parameter: the parameter itself, a context made from
// a derived one by the context package's With* constructors (WithoutCancel excepted), a phi or a captured/reassigned
// variable all of whose definitions derive from it. Anything else (context.Background(), a context kept in a field,
// WithoutCancel) detaches the callee from the caller's cancellation.
func ctxFlowObligations(ld *Loader, e *Emitter, fn *ssa.Function, ct *Contract, label string) {
	if ct == nil || len(ct.CtxFlow) == 0 {
		return
	}
	cl := ct.CtxFlow[0]
	// closures: free variable -> the binding at the MakeClosure site
	bind := map[*ssa.FreeVar]ssa.Value{}
	var fns []*ssa.Function
	var collect func(f *ssa.Function)
	collect = func(f *ssa.Function) {
		fns = append(fns, f)
		for _, b := range f.Blocks {
			for _, in := range b.Instrs {
				if mc, ok := in.(*ssa.MakeClosure); ok {
					if cf, ok := mc.Fn.(*ssa.Function); ok {
						for i, fv := range cf.FreeVars {
							if i < len(mc.Bindings) {
								bind[fv] = mc.Bindings[i]
							}
						}
					}
				}
			}
		}
		for _, af := range f.AnonFuncs {
			collect(af)
		}
	}
	collect(fn)
	resolve := func(v ssa.Value) ssa.Value {
		for i := 0; i < 8; i++ {
			fv, ok := v.(*ssa.FreeVar)
			if !ok {
				break
			}
			bv, ok := bind[fv]
			if !ok {
				break
			}
			v = bv
		}
		return v
	}
	memo := map[ssa.Value]int{} // 1 derived, 2 not, 3 in progress (optimistic for cycles)
	var derived func(v ssa.Value) bool
	storesDerived := func(cell ssa.Value) bool {
		any := false
		for _, f := range fns {
			for _, b := range f.Blocks {
				for _, in := range b.Instrs {
					if st, ok := in.(*ssa.Store); ok {
						if resolve(st.Addr) == cell {
							any = true
							if !derived(st.Val) {
								return false
							}
						}
					}
				}
			}
		}
		return any
	}
	derived = func(v ssa.Value) bool {
		switch memo[v] {
		case 1, 3:
			return true
		case 2:
			return false
		}
		memo[v] = 3
		r := false
		switch x := v.(type) {
		case *ssa.Parameter:
			r = x.Parent() == fn && isContextType(x.Type())
		case *ssa.FreeVar:
			if bv, ok := bind[x]; ok {
				r = derived(bv)
			}
		case *ssa.Phi:
			r = true
			for _, ed := range x.Edges {
				if !derived(ed) {
					r = false
				}
			}
		case *ssa.ChangeInterface:
			r = derived(x.X)
		case *ssa.MakeInterface:
			r = derived(x.X)
		case *ssa.Extract:
			r = derived(x.Tuple)
		case *ssa.Call:
			if sc := x.Call.StaticCallee(); sc != nil && sc.Pkg != nil && sc.Pkg.Pkg.Path() == "context" &&
				strings.HasPrefix(sc.Name(), "With") && sc.Name() != "WithoutCancel" && len(x.Call.Args) > 0 {
				r = derived(x.Call.Args[0])
			}
		case *ssa.UnOp:
			if x.Op == token.MUL {
				cell := resolve(x.X)
				if _, isAlloc := cell.(*ssa.Alloc); isAlloc {
					r = storesDerived(cell)
				}
			}
		}
		if r {
			memo[v] = 1
		} else {
			memo[v] = 2
		}
		return r
	}
	n := 0
	for _, f := range fns {
		for _, b := range f.Blocks {
			for _, in := range b.Instrs {
				c, ok := in.(ssa.CallInstruction)
				if !ok {
					continue
				}
				for _, a := range c.Common().Args {
					if !isContextType(a.Type()) || derived(a) {
						continue
					}
					n++
					pos := ""
					if in.Pos().IsValid() {
						pp := ld.fset.Position(in.Pos())
						pos = fmt.Sprintf("%s:%d", strings.TrimPrefix(pp.Filename, "/repo/"), pp.Line)
					}
					e.oblige(&Obl{Name: fmt.Sprintf("%s#ctxflow:%s@%d", label, cl.Label, n), Kind: "nocall", Props: cl.Props,
						Cond: tTrue, Goal: tFalse, Pos: pos, Fn: label})
				}
			}
		}
	}
	e.oblige(&Obl{Name: fmt.Sprintf("%s#ctxflow:%s", label, cl.Label), Kind: "nocall", Props: cl.Props, Cond: tTrue, Goal: tTrue, Pos: cl.Where, Fn: label})
}
