package main

import (
	"fmt"
	"go/constant"
	"go/types"
	"strconv"
	"strings"
)

// ---------- strings ----------

func (g *Gen) strLen(e *Emitter, s Term) Term {
	f := e.declareFun("s$len", []Sort{SInt}, SInt)
	return Term{fmt.Sprintf("(%s %s)", f, s.S), SInt}
}
func (g *Gen) strAt(e *Emitter, s, i Term) Term {
	f := e.declareFun("s$at", []Sort{SInt, SInt}, SInt)
	return Term{fmt.Sprintf("(%s %s %s)", f, s.S, i.S), SInt}
}

func (g *Gen) strLit(e *Emitter, content string) Term {
	if t, ok := g.strLits[content]; ok {
		return t
	}
	id := len(g.strLits)
	c := e.declare(fmt.Sprintf("str$lit%d", id), SInt)
	g.strLits[content] = c
	g.strLitOrder = append(g.strLitOrder, content)
	q := e.quiet
	e.quiet = 0
	defer func() { e.quiet = q }()
	e.assertRaw(eq(g.strLen(e, c), intT(int64(len(content)))))
	if len(content) <= 96 {
		for i := 0; i < len(content); i++ {
			e.assertRaw(eq(g.strAt(e, c, intT(int64(i))), intT(int64(content[i]))))
		}
	}
	// literal ids are small positive numbers: distinct from each other by value
	e.assertRaw(eq(c, intT(int64(-1000000-id))))
	return c
}

// strEqLit is the content-based equality of a string value with a literal.
func (g *Gen) strEqLit(e *Emitter, s Term, content string) Term {
	if len(content) > 64 {
		return eq(s, g.strLit(e, content))
	}
	cs := []Term{eq(g.strLen(e, s), intT(int64(len(content))))}
	for i := 0; i < len(content); i++ {
		cs = append(cs, eq(g.strAt(e, s, intT(int64(i))), intT(int64(content[i]))))
	}
	return and(cs...)
}

func (g *Gen) constToVal(e *Emitter, cv constant.Value, t types.Type) Val {
	switch cv.Kind() {
	case constant.Bool:
		return Val{T: t, C: []Term{boolT(constant.BoolVal(cv))}}
	case constant.String:
		s := constant.StringVal(cv)
		return Val{T: t, C: []Term{g.strLit(e, s)}, Lit: &s}
	case constant.Int:
		if isFloat(t) {
			return Val{T: t, C: []Term{{cv.ExactString() + ".0", SReal}}}
		}
		return Val{T: t, C: []Term{bigT(cv.ExactString())}}
	case constant.Float:
		if isInteger(t) {
			if i, ok := constant.Int64Val(constant.ToInt(cv)); ok {
				return Val{T: t, C: []Term{intT(i)}}
			}
		}
		f, _ := constant.Float64Val(cv)
		r := constant.ToFloat(cv)
		num := constant.Num(r)
		den := constant.Denom(r)
		_ = f
		if num.Kind() == constant.Int && den.Kind() == constant.Int {
			ns := num.ExactString()
			neg := false
			if len(ns) > 0 && ns[0] == '-' {
				neg = true
				ns = ns[1:]
			}
			s := fmt.Sprintf("(/ %s.0 %s.0)", ns, den.ExactString())
			if neg {
				s = "(- " + s + ")"
			}
			return Val{T: t, C: []Term{{s, SReal}}}
		}
		return Val{T: t, C: []Term{{strconv.FormatFloat(f, 'f', -1, 64), SReal}}}
	}
	return Val{T: t, C: []Term{e.fresh("const", SInt)}}
}

// ---------- heap layout ----------

func fieldKeyOf(structT types.Type, field string) string {
	return typeKey(structT) + "." + field
}

// fr returns the derived reference of an embedded struct/array field object.
func (g *Gen) fr(e *Emitter, structT types.Type, field string, base Term) Term {
	name := "fr$" + fieldKeyOf(structT, field)
	f := e.declareFun(name, []Sort{SInt}, SInt)
	t := Term{fmt.Sprintf("(%s %s)", f, base.S), SInt}
	inv := e.declareFun(name+"$inv", []Sort{SInt}, SInt)
	tag := e.declareFun("fr$tag", []Sort{SInt}, SInt)
	id, ok := g.typeIDs[name]
	if !ok {
		id = len(g.typeIDs) + 1
		g.typeIDs[name] = id
	}
	k := name + "(" + base.S + ")"
	if !g.frSeen[k] && !strings.Contains(base.S, "!q") {
		g.frSeen[k] = true
		// facts about a closed term: asserted even while evaluating a quantifier body
		q := e.quiet
		e.quiet = 0
		defer func() { e.quiet = q }()
		e.assertRaw(and(
			lt(t, intT(-2000000)),
			eq(Term{fmt.Sprintf("(%s %s)", inv, t.S), SInt}, base),
			eq(Term{fmt.Sprintf("(%s %s)", tag, t.S), SInt}, intT(int64(id))),
			eq(Term{fmt.Sprintf("(%s %s)", e.declareFun("root", []Sort{SInt}, SInt), t.S), SInt}, g.rootOf(e, base))))
	}
	return t
}

type keySort struct {
	key  string
	sort Sort
}

// elemKeys returns the heap keys that hold the elements of backing arrays with element type et.
func elemKeys(et types.Type) []keySort {
	var out []keySort
	for _, c := range comps(et) {
		out = append(out, keySort{"elems$" + typeKey(et) + c.Suffix, arrSort(SInt, arrSort(SInt, c.Sort))})
	}
	return out
}

func (tr *Trans) readElem(st *State, et types.Type, ref, idx Term) Val {
	v := Val{T: et}
	if isObjType(et) {
		// elements that are objects are not modelled precisely
		tr.e.note("%s: read of struct/array element treated as opaque", tr.label)
		return tr.freshVal(et, "elemobj", st, tr.rc)
	}
	for _, ks := range elemKeys(et) {
		h := st.get(tr.e, ks.key, ks.sort)
		v.C = append(v.C, sel(sel(h, ref), idx))
	}
	tr.assumeTyped(v, st, tr.rc)
	return v
}

func (tr *Trans) writeElem(st *State, et types.Type, ref, idx Term, x Val) {
	if isObjType(et) {
		tr.e.note("%s: write of struct/array element not modelled (dropped)", tr.label)
		return
	}
	ks := elemKeys(et)
	if len(ks) != len(x.C) {
		tr.e.note("%s: element write with mismatched shape", tr.label)
		return
	}
	for i, k := range ks {
		h := st.get(tr.e, k.key, k.sort)
		inner := store(sel(h, ref), idx, x.C[i])
		st.set(k.key, tr.e.name("H", store(h, ref, inner)))
	}
}

// readField reads field f (by name) of the struct object at base.
func (tr *Trans) readField(st *State, structT types.Type, f *types.Var, base Term) Val {
	ft := f.Type()
	if isObjType(ft) {
		return tr.loadObj(st, ft, tr.g.fr(tr.e, structT, f.Name(), base))
	}
	v := Val{T: ft}
	for _, c := range comps(ft) {
		key := fieldKeyOf(structT, f.Name()) + c.Suffix
		h := st.get(tr.e, key, arrSort(SInt, c.Sort))
		v.C = append(v.C, sel(h, base))
	}
	tr.assumeTyped(v, st, tr.rc)
	return v
}

func (tr *Trans) writeField(st *State, structT types.Type, f *types.Var, base Term, x Val) {
	ft := f.Type()
	if isObjType(ft) {
		tr.storeObj(st, ft, tr.g.fr(tr.e, structT, f.Name(), base), x)
		return
	}
	cs := comps(ft)
	if len(cs) != len(x.C) {
		tr.e.note("%s: field write with mismatched shape %s", tr.label, f.Name())
		return
	}
	for i, c := range cs {
		key := fieldKeyOf(structT, f.Name()) + c.Suffix
		h := st.get(tr.e, key, arrSort(SInt, c.Sort))
		st.set(key, tr.e.name("H", store(h, base, x.C[i])))
	}
}

// loadObj reads a whole struct or array value from the object at ref.
func (tr *Trans) loadObj(st *State, t types.Type, ref Term) Val {
	switch u := under(t).(type) {
	case *types.Struct:
		v := Val{T: t}
		for i := 0; i < u.NumFields(); i++ {
			fv := tr.readField(st, t, u.Field(i), ref)
			v.C = append(v.C, fv.C...)
		}
		return v
	case *types.Array:
		cs := comps(t)
		if cs[0].Role == "array" {
			ks := elemKeys(u.Elem())
			h := st.get(tr.e, ks[0].key, ks[0].sort)
			return Val{T: t, C: []Term{sel(h, ref)}}
		}
		return tr.freshVal(t, "arrobj", st, tr.rc)
	}
	panic("loadObj of non-object type " + t.String())
}

func (tr *Trans) storeObj(st *State, t types.Type, ref Term, x Val) {
	switch u := under(t).(type) {
	case *types.Struct:
		off := 0
		for i := 0; i < u.NumFields(); i++ {
			n := ncomps(u.Field(i).Type())
			if off+n > len(x.C) {
				tr.e.note("%s: struct store with mismatched shape", tr.label)
				return
			}
			tr.writeField(st, t, u.Field(i), ref, Val{T: u.Field(i).Type(), C: x.C[off : off+n]})
			off += n
		}
	case *types.Array:
		cs := comps(t)
		if cs[0].Role == "array" && len(x.C) == 1 {
			ks := elemKeys(u.Elem())
			h := st.get(tr.e, ks[0].key, ks[0].sort)
			st.set(ks[0].key, tr.e.name("H", store(h, ref, x.C[0])))
		}
	}
}

// allocRef returns a fresh object reference.
func (tr *Trans) allocRef(st *State) Term {
	wm := st.get(tr.e, "$wm", SInt)
	r := tr.e.name("ref", wm)
	st.set("$wm", tr.e.name("wm", add(wm, intT(1))))
	tr.e.assume(tr.rc, gt(wm, intT(0)))
	return r
}

// cell access for local/global scalar cells
func (tr *Trans) readCell(st *State, key string, t types.Type) Val {
	v := Val{T: t}
	for _, c := range comps(t) {
		v.C = append(v.C, st.get(tr.e, key+c.Suffix, c.Sort))
	}
	tr.assumeTyped(v, st, tr.rc)
	return v
}

func (tr *Trans) writeCell(st *State, key string, t types.Type, x Val) {
	cs := comps(t)
	if len(cs) != len(x.C) {
		tr.e.note("%s: cell write with mismatched shape (%s)", tr.label, key)
		return
	}
	for i, c := range cs {
		st.set(key+c.Suffix, x.C[i])
	}
}

// load through a pointer value
func (tr *Trans) load(p Val, t types.Type) Val {
	st := tr.st
	if p.Addr != nil {
		a := p.Addr
		switch a.Kind {
		case AddrCell:
			return tr.readCell(st, a.Key, t)
		case AddrField:
			tr.checkGuarded(a, false)
			return tr.readField(st, a.structT(), a.fieldVar(), a.Base)
		case AddrElem:
			return tr.readElem(st, t, a.Base, a.Idx)
		}
		tr.e.note("%s: load through untracked pointer", tr.label)
		return tr.freshVal(t, "opaqueload", st, tr.rc)
	}
	if isObjType(t) && len(p.C) == 1 {
		return tr.loadObj(st, t, p.C[0])
	}
	tr.e.note("%s: load through untracked pointer to %s", tr.label, t.String())
	return tr.freshVal(t, "opaqueload", st, tr.rc)
}

func (tr *Trans) storeTo(p Val, t types.Type, x Val) {
	st := tr.st
	if p.Addr != nil {
		a := p.Addr
		switch a.Kind {
		case AddrCell:
			tr.writeCell(st, a.Key, t, x)
			return
		case AddrField:
			tr.checkGuarded(a, true)
			tr.writeField(st, a.structT(), a.fieldVar(), a.Base, x)
			return
		case AddrElem:
			tr.writeElem(st, t, a.Base, a.Idx, x)
			return
		}
	} else if isObjType(t) && len(p.C) == 1 {
		tr.storeObj(st, t, p.C[0], x)
		return
	}
	tr.e.note("%s: store through untracked pointer (heap havocked)", tr.label)
	tr.st = tr.g.havocAll(st, nil)
}

func (a *Addr) structT() types.Type  { return a.ST }
func (a *Addr) fieldVar() *types.Var { return a.FV }

func newFieldAddr(structT types.Type, fv *types.Var, base Term) *Addr {
	return &Addr{Kind: AddrField, Key: fieldKeyOf(structT, fv.Name()), Base: base, Field: fv.Name(), T: fv.Type(), ST: structT, FV: fv}
}

// checkGuarded emits the lock-discipline obligation for an access to a field declared `guarded_by` a mutex.
func (tr *Trans) checkGuarded(a *Addr, write bool) {
	g := tr.g
	if !g.opts.Safety || g.dry > 0 || tr.curInstr == nil || a.ST == nil {
		return
	}
	key := fieldKeyOf(a.ST, a.Field) // pkg.Type.field
	for _, gb := range g.specs.Guarded {
		if gb.Field != key {
			continue
		}
		st, ok := under(a.ST).(*types.Struct)
		if !ok {
			return
		}
		mname := gb.Mutex[strings.LastIndex(gb.Mutex, ".")+1:]
		for i := 0; i < st.NumFields(); i++ {
			if st.Field(i).Name() != mname {
				continue
			}
			mref := g.fr(tr.e, a.ST, mname, a.Base)
			mode := "w"
			if !write {
				mode = "r"
			}
			held := g.lockHeld(tr.e, tr.st, st.Field(i).Type(), mref, mode)
			wm0 := g.topTr.pre.get(tr.e, "$wm", SInt)
			// objects created by this very function are not shared yet
			goal := or(ge(a.Base, wm0), held)
			ord := tr.ordinal("guarded", tr.curInstr)
			what := "read"
			if write {
				what = "write"
			}
			tr.e.oblige(&Obl{Name: fmt.Sprintf("%s#guarded_by#%s-%d:%s", tr.label, what, ord, key), Kind: "guarded_by", Cond: tr.rc, Goal: goal,
				Pos: tr.posOf(tr.curInstr), Fn: tr.label, Props: []string{"C17"}})
		}
	}
}
