package main

import (
	"bytes"
	"context"
	"fmt"
	"os"
	"os/exec"
	"path/filepath"
	"regexp"
	"strings"
	"sync"
	"time"
)

type OblResult struct {
	Obl      *Obl
	Status   string // discharged | failed | undecided | vacuous | cover-ok
	Solver   string
	Secs     float64
	Answers  map[string]string // solver -> sat/unsat/unknown/timeout/error
	Model    map[string]string
	Raw      string
	Disagree bool
}

type solverSpec struct {
	name string
	cmd  func(timeoutMs int, file string) []string
	head func(timeoutMs int) string
}

var solvers = []solverSpec{
	{"z3-new", func(t int, f string) []string { return []string{"z3-new", "-smt2", f} },
		func(t int) string { return fmt.Sprintf("(set-option :timeout %d)\n", t) }},
	{"z3", func(t int, f string) []string { return []string{"z3", "-smt2", f} },
		func(t int) string { return fmt.Sprintf("(set-option :timeout %d)\n", t) }},
	{"cvc5", func(t int, f string) []string {
		return []string{"cvc5", "--incremental", fmt.Sprintf("--tlimit-per=%d", t), "--lang=smt2", f}
	}, func(t int) string { return "(set-option :produce-models true)\n(set-logic ALL)\n" }},
}

func renderScript(vc *FuncVC, head string, obls []*Obl, sp solverSpec, timeoutMs int) string {
	var b strings.Builder
	b.WriteString(head)
	if !strings.Contains(head, "produce-models") {
		b.WriteString("(set-option :produce-models true)\n")
	}
	b.WriteString(vc.Prefix)
	for i, o := range obls {
		if o.Vac && sp.name == "cvc5" {
			continue // cover queries are satisfiable: cvc5 has no per-query timeout, z3 answers them
		}
		if o.Vac {
			fmt.Fprintf(&b, "(set-option :timeout %d)\n", 1500)
		}
		fmt.Fprintf(&b, "(echo \"@@begin %d\")\n(push 1)\n", i)
		if o.Vac {
			fmt.Fprintf(&b, "(assert %s)\n", o.Cond.S)
		} else {
			fmt.Fprintf(&b, "(assert %s)\n(assert (not %s))\n", o.Cond.S, o.Goal.S)
		}
		b.WriteString("(check-sat)\n")
		if len(o.Values) > 0 && !o.Vac {
			var names []string
			for _, v := range o.Values {
				names = append(names, v.T.S)
			}
			fmt.Fprintf(&b, "(echo \"@@values\")\n(get-value (%s))\n", strings.Join(names, " "))
		}
		fmt.Fprintf(&b, "(pop 1)\n(echo \"@@end %d\")\n", i)
		if o.Vac {
			fmt.Fprintf(&b, "(set-option :timeout %d)\n", timeoutMs)
		}
	}
	return b.String()
}

var beginRe = regexp.MustCompile(`^@@begin (\d+)$`)

// runSolver runs one solver over the whole script of a function and returns the answer per obligation.
func runSolver(ctx context.Context, sp solverSpec, vc *FuncVC, obls []*Obl, timeoutMs int, dir string) (answers []string, raws []string, secs []float64) {
	answers = make([]string, len(obls))
	raws = make([]string, len(obls))
	secs = make([]float64, len(obls))
	for i := range answers {
		answers[i] = "error"
		if obls[i].Vac && sp.name == "cvc5" {
			answers[i] = "skipped"
		}
	}
	script := renderScript(vc, sp.head(timeoutMs), obls, sp, timeoutMs)
	file := filepath.Join(dir, sanitize(vc.Label)+"."+sp.name+".smt2")
	if err := os.WriteFile(file, []byte(script), 0o644); err != nil {
		return
	}
	total := time.Duration(timeoutMs*(len(obls)+1))*time.Millisecond + 20*time.Second
	cctx, cancel := context.WithTimeout(ctx, total)
	defer cancel()
	args := sp.cmd(timeoutMs, file)
	cmd := exec.CommandContext(cctx, args[0], args[1:]...)
	var out bytes.Buffer
	cmd.Stdout = &out
	cmd.Stderr = &out
	start := time.Now()
	_ = cmd.Run()
	elapsed := time.Since(start).Seconds()
	if ctx.Err() != nil {
		for i := range answers {
			if answers[i] == "error" {
				answers[i] = "cancelled"
			}
		}
	}
	cur := -1
	var buf []string
	flush := func() {
		if cur >= 0 && cur < len(obls) {
			raws[cur] = strings.Join(buf, "\n")
			ans := "error"
			for _, l := range buf {
				l = strings.TrimSpace(l)
				if l == "sat" || l == "unsat" || l == "unknown" || l == "timeout" {
					ans = l
					break
				}
			}
			if ans == "error" && strings.Contains(raws[cur], "timeout") {
				ans = "timeout"
			}
			answers[cur] = ans
		}
	}
	for _, line := range strings.Split(out.String(), "\n") {
		t := strings.Trim(strings.TrimSpace(line), "\"")
		if m := beginRe.FindStringSubmatch(t); m != nil {
			fmt.Sscanf(m[1], "%d", &cur)
			buf = nil
			continue
		}
		if strings.HasPrefix(t, "@@end") {
			flush()
			cur = -1
			continue
		}
		if cur >= 0 {
			buf = append(buf, line)
		}
	}
	if cur >= 0 {
		flush()
		for i := cur; i < len(obls); i++ {
			if answers[i] == "error" {
				answers[i] = "timeout"
			}
		}
	}
	for i := range secs {
		secs[i] = elapsed / float64(len(obls)+1)
	}
	return
}

func sanitize(s string) string {
	r := strings.NewReplacer("/", "_", "*", "", "(", "", ")", "", " ", "_", ">", "-", "$", "_", "#", "_", ":", "_")
	return r.Replace(s)
}

var valueRe = regexp.MustCompile(`\(\s*([^\s()|]+|\|[^|]*\|)\s+(\(- \d+\)|-?\d+|true|false|\(/ [^)]*\)|[0-9.]+)\s*\)`)

func parseValues(raw string, o *Obl) map[string]string {
	i := strings.Index(raw, "@@values")
	if i < 0 {
		return nil
	}
	txt := raw[i:]
	m := map[string]string{}
	byTerm := map[string]string{}
	for _, v := range o.Values {
		byTerm[v.T.S] = v.Name
	}
	for _, mm := range valueRe.FindAllStringSubmatch(txt, -1) {
		name := mm[1]
		val := strings.ReplaceAll(strings.ReplaceAll(mm[2], "(- ", "-"), ")", "")
		if n, ok := byTerm[name]; ok {
			m[n] = val
		} else {
			m[name] = val
		}
	}
	// complex terms: positional fallback
	return m
}

// solveFunc races the solvers on the obligations of one function.
func solveFunc(ctx context.Context, vc *FuncVC, timeoutMs int, dir string, sem chan struct{}, agree bool) []*OblResult {
	obls := vc.Obls
	results := make([]*OblResult, len(obls))
	for i, o := range obls {
		results[i] = &OblResult{Obl: o, Answers: map[string]string{}}
	}
	if len(obls) == 0 {
		return results
	}
	type solverOut struct {
		name    string
		answers []string
		raws    []string
		secs    []float64
	}
	var mu sync.Mutex
	var outs []solverOut
	var wg sync.WaitGroup
	cctx, cancel := context.WithCancel(ctx)
	defer cancel()
	decided := func() bool {
		mu.Lock()
		defer mu.Unlock()
		for i, o := range obls {
			ok := false
			for _, so := range outs {
				a := so.answers[i]
				if o.Vac && (a == "unknown" || a == "timeout") {
					ok = true
				}
				if o.Vac && (a == "sat" || a == "unsat") || !o.Vac && (a == "unsat" || a == "sat") {
					ok = true
				}
			}
			if !ok {
				return false
			}
		}
		return true
	}
	for _, sp := range solvers {
		wg.Add(1)
		go func(sp solverSpec) {
			defer wg.Done()
			sem <- struct{}{}
			defer func() { <-sem }()
			if cctx.Err() != nil {
				return
			}
			a, r, s := runSolver(cctx, sp, vc, obls, timeoutMs, dir)
			mu.Lock()
			outs = append(outs, solverOut{sp.name, a, r, s})
			mu.Unlock()
			if !agree && decided() {
				cancel()
			}
		}(sp)
	}
	wg.Wait()
	for i, o := range obls {
		res := results[i]
		var sat, unsat string
		for _, so := range outs {
			a := so.answers[i]
			res.Answers[so.name] = a
			if a == "sat" && sat == "" {
				sat = so.name
				res.Raw = so.raws[i]
				res.Secs = so.secs[i]
			}
			if a == "unsat" && unsat == "" {
				unsat = so.name
				if res.Secs == 0 {
					res.Secs = so.secs[i]
				}
			}
		}
		if sat != "" && unsat != "" {
			res.Disagree = true
		}
		if o.Vac {
			switch {
			case sat != "":
				res.Status, res.Solver = "cover-ok", sat
			case unsat != "":
				res.Status, res.Solver = "vacuous", unsat
			default:
				res.Status = "cover-unknown" // not shown unsatisfiable: the contract is not vacuous as far as the solvers can tell
			}
			continue
		}
		switch {
		case unsat != "" && sat == "":
			res.Status, res.Solver = "discharged", unsat
		case sat != "":
			res.Status, res.Solver = "failed", sat
			res.Model = parseValues(res.Raw, o)
		default:
			res.Status = "undecided"
			for _, so := range outs {
				if so.raws[i] != "" {
					res.Raw = so.raws[i]
				}
			}
		}
	}
	return results
}
