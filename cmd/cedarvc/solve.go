package main

import (
	"bytes"
	"context"
	"fmt"
	"os"
	"os/exec"
	"path/filepath"
	"regexp"
	"strings"
	"sync"
	"time"
)

type OblResult struct {
	Obl      *Obl
	Status   string // discharged | failed | undecided | vacuous | cover-ok | cover-unknown
	Solver   string
	Secs     float64
	Answers  map[string]string // solver -> sat/unsat/unknown/timeout/error
	Model    map[string]string
	Raw      string
	Disagree bool
}

type solverSpec struct {
	name string
	cmd  func(timeoutMs int, file string) []string
	head func(timeoutMs int) string
}

var solvers = []solverSpec{
	{"z3-new", func(t int, f string) []string { return []string{"z3-new", fmt.Sprintf("-T:%d", t/1000+2), "-smt2", f} },
		func(t int) string {
			return fmt.Sprintf("(set-option :timeout %d)\n(set-option :produce-models true)\n", t*12)
		}},
	{"cvc5", func(t int, f string) []string {
		return []string{"cvc5", fmt.Sprintf("--tlimit=%d", t), "--lang=smt2", f}
	}, func(t int) string { return "(set-option :produce-models true)\n(set-logic ALL)\n" }},
	{"z3", func(t int, f string) []string { return []string{"z3", fmt.Sprintf("-T:%d", t/1000+2), "-smt2", f} },
		func(t int) string {
			return fmt.Sprintf("(set-option :timeout %d)\n(set-option :produce-models true)\n", t*12)
		}},
}

// renderOne writes the script of a single obligation: prefix, the negated goal, check-sat, optional get-value.
func renderOne(vc *FuncVC, head string, o *Obl) string {
	var b strings.Builder
	b.WriteString(head)
	if o.NAsserts > 0 && vc.Asserts != nil && o.NAsserts-1 <= len(vc.Asserts) && os.Getenv("CEDAR_FULL_PREFIX") == "" {
		for _, d := range vc.Decls {
			b.WriteString(d)
			b.WriteString("\n")
		}
		for _, a := range vc.Asserts[:o.NAsserts-1] {
			b.WriteString(a)
			b.WriteString("\n")
		}
	} else {
		b.WriteString(vc.Prefix)
	}
	fmt.Fprintf(&b, "; obligation %s\n", o.Name)
	for _, x := range o.Extra {
		fmt.Fprintf(&b, "(assert %s)\n", x.S)
	}
	if o.Vac {
		fmt.Fprintf(&b, "(assert %s)\n", o.Cond.S)
	} else {
		fmt.Fprintf(&b, "(assert %s)\n(assert (not %s))\n", o.Cond.S, o.Goal.S)
	}
	b.WriteString("(check-sat)\n")
	if len(o.Values) > 0 && !o.Vac {
		var names []string
		for _, v := range o.Values {
			names = append(names, v.T.S)
		}
		fmt.Fprintf(&b, "(echo \"@@values\")\n(get-value (%s))\n", strings.Join(names, " "))
	}
	return b.String()
}

// solverHint: obligation name -> the solver that discharged it at baseline time
var solverHint = map[string]string{}

var fileSeq int
var fileMu sync.Mutex

// runOne runs one solver on one obligation in its own process under a hard wall-clock limit.
func runOne(ctx context.Context, sp solverSpec, vc *FuncVC, o *Obl, timeoutMs int, dir string) (answer, raw string, secs float64) {
	fileMu.Lock()
	fileSeq++
	n := fileSeq
	fileMu.Unlock()
	file := filepath.Join(dir, fmt.Sprintf("o%d.%s.smt2", n, sp.name))
	if err := os.WriteFile(file, []byte(renderOne(vc, sp.head(timeoutMs), o)), 0o644); err != nil {
		return "error", err.Error(), 0
	}
	if os.Getenv("CEDAR_KEEP_SMT") == "" {
		defer os.Remove(file)
	}
	// The budget is CPU time, not wall-clock time: when the machine is loaded (several checks running side by side) a
	// solver still gets its seconds of CPU, so a loaded machine does not turn proofs into time-outs. The solvers' own
	// (wall-clock) limits and the hard kill are set 12x wider; ulimit -t enforces the real budget.
	cpuSecs := timeoutMs/1000 + 2
	wallMs := timeoutMs * 12
	cctx, cancel := context.WithTimeout(ctx, time.Duration(wallMs)*time.Millisecond+5*time.Second)
	defer cancel()
	args := sp.cmd(wallMs, file)
	sh := fmt.Sprintf("ulimit -t %d; exec \"$@\"", cpuSecs)
	cmd := exec.CommandContext(cctx, "bash", append([]string{"-c", sh, "solver"}, args...)...)
	var out bytes.Buffer
	cmd.Stdout = &out
	cmd.Stderr = &out
	start := time.Now()
	_ = cmd.Run()
	secs = time.Since(start).Seconds()
	raw = out.String()
	answer = "error"
	for _, l := range strings.Split(raw, "\n") {
		l = strings.TrimSpace(l)
		if l == "sat" || l == "unsat" || l == "unknown" || l == "timeout" {
			answer = l
			break
		}
	}
	if answer == "error" {
		if cctx.Err() != nil || strings.Contains(raw, "timeout") || strings.Contains(raw, "interrupted") {
			answer = "timeout"
		} else if ps := cmd.ProcessState; ps != nil && !ps.Success() && strings.TrimSpace(raw) == "" {
			answer = "timeout" // killed by the CPU limit (SIGXCPU/SIGKILL) before printing an answer
		}
	}
	if ctx.Err() != nil && answer == "error" {
		answer = "cancelled"
	}
	return
}

func sanitize(s string) string {
	r := strings.NewReplacer("/", "_", "*", "", "(", "", ")", "", " ", "_", ">", "-", "$", "_", "#", "_", ":", "_")
	return r.Replace(s)
}

var valueRe = regexp.MustCompile(`\(\s*([^\s()|]+|\|[^|]*\|)\s+(\(- \d+\)|-?\d+|true|false|\(/ [^)]*\)|[0-9.]+)\s*\)`)

func parseValues(raw string, o *Obl) map[string]string {
	i := strings.Index(raw, "@@values")
	if i < 0 {
		return nil
	}
	txt := raw[i+len("@@values"):]
	// the answer to (get-value (t1 ... tn)) is ((t1 v1) ... (tn vn)) in the order asked: read the pairs positionally
	pos := strings.Index(txt, "(")
	if pos < 0 {
		return nil
	}
	pos++ // inside the outer list
	m := map[string]string{}
	readSexp := func() (string, bool) {
		for pos < len(txt) && (txt[pos] == ' ' || txt[pos] == '\n' || txt[pos] == '\t' || txt[pos] == '\r') {
			pos++
		}
		if pos >= len(txt) || txt[pos] == ')' {
			return "", false
		}
		start := pos
		if txt[pos] == '(' {
			depth := 0
			for pos < len(txt) {
				if txt[pos] == '(' {
					depth++
				} else if txt[pos] == ')' {
					depth--
					if depth == 0 {
						pos++
						break
					}
				} else if txt[pos] == '|' {
					pos++
					for pos < len(txt) && txt[pos] != '|' {
						pos++
					}
				}
				pos++
			}
			return txt[start:pos], true
		}
		if txt[pos] == '|' {
			pos++
			for pos < len(txt) && txt[pos] != '|' {
				pos++
			}
			pos++
			return txt[start:pos], true
		}
		for pos < len(txt) && !strings.ContainsRune(" \n\t\r()", rune(txt[pos])) {
			pos++
		}
		return txt[start:pos], true
	}
	for k := 0; k < len(o.Values); k++ {
		pair, ok := readSexp()
		if !ok || len(pair) < 2 {
			break
		}
		// split the pair: the value is its last top-level element
		inner := strings.TrimSpace(pair[1 : len(pair)-1])
		depth, cut := 0, -1
		for j := 0; j < len(inner); j++ {
			switch inner[j] {
			case '(':
				depth++
			case ')':
				depth--
			case ' ', '\n':
				if depth == 0 {
					cut = j
				}
			}
		}
		if cut < 0 {
			continue
		}
		val := strings.TrimSpace(inner[cut+1:])
		val = strings.ReplaceAll(strings.ReplaceAll(val, "(- ", "-"), ")", "")
		m[o.Values[k].Name] = val
	}
	return m
}

// solveObl decides one obligation: z3 5.1 first, then cvc5 and z3 4.8 in parallel if it did not decide.
// With agree=true all three run and a sat/unsat disagreement is recorded.
func solveObl(ctx context.Context, vc *FuncVC, o *Obl, timeoutMs int, dir string, sem chan struct{}, agree bool) *OblResult {
	res := &OblResult{Obl: o, Answers: map[string]string{}}
	var mu sync.Mutex
	run := func(sp solverSpec, t int) string {
		sem <- struct{}{}
		a, raw, secs := runOne(ctx, sp, vc, o, t, dir)
		<-sem
		mu.Lock()
		defer mu.Unlock()
		res.Answers[sp.name] = a
		res.Secs += secs
		if a == "sat" || a == "unsat" {
			if res.Solver == "" {
				res.Solver = sp.name
			}
			if a == "sat" {
				res.Raw = raw
			}
		} else if res.Raw == "" && a != "cancelled" {
			res.Raw = raw
		}
		return a
	}
	if o.Vac {
		a := run(solvers[0], 1500)
		switch a {
		case "sat":
			res.Status = "cover-ok"
		case "unsat":
			// confirm with a second solver before calling a contract vacuous
			b := run(solvers[2], 3000)
			if b == "sat" {
				res.Status = "cover-ok"
			} else {
				res.Status = "vacuous"
			}
		default:
			res.Status = "cover-unknown"
		}
		return res
	}
	// start with the solver that decided this obligation when the baseline was recorded (a hint, not a requirement)
	order := solvers
	if h := solverHint[o.Name]; h != "" && h != solvers[0].name {
		order = nil
		for _, sp := range solvers {
			if sp.name == h {
				order = append([]solverSpec{sp}, order...)
			} else {
				order = append(order, sp)
			}
		}
	}
	first := run(order[0], timeoutMs)
	if agree || (first != "unsat" && first != "sat") {
		// cross-checking a definitive answer gets a short budget (a solver that cannot confirm in 10 s is not asked
		// to spend a minute on every one of thousands of obligations); an undecided one gets the full budget
		t2 := timeoutMs
		if (first == "unsat" || first == "sat") && t2 > 10000 {
			t2 = 10000
		}
		var wg sync.WaitGroup
		for _, sp := range order[1:] {
			wg.Add(1)
			go func(sp solverSpec) {
				defer wg.Done()
				run(sp, t2)
			}(sp)
		}
		wg.Wait()
	}
	sat, unsat := "", ""
	for _, sp := range solvers {
		switch res.Answers[sp.name] {
		case "sat":
			if sat == "" {
				sat = sp.name
			}
		case "unsat":
			if unsat == "" {
				unsat = sp.name
			}
		}
	}
	switch {
	case sat != "" && unsat != "":
		res.Disagree = true
		res.Status, res.Solver = "failed", sat
	case unsat != "":
		res.Status, res.Solver = "discharged", unsat
	case sat != "":
		res.Status, res.Solver = "failed", sat
		res.Model = parseValues(res.Raw, o)
	default:
		res.Status = "undecided"
	}
	return res
}

// solveFunc decides all obligations of one function, each in its own solver processes.
func solveFunc(ctx context.Context, vc *FuncVC, timeoutMs int, dir string, sem chan struct{}, agree bool) []*OblResult {
	results := make([]*OblResult, len(vc.Obls))
	var wg sync.WaitGroup
	for i, o := range vc.Obls {
		wg.Add(1)
		go func(i int, o *Obl) {
			defer wg.Done()
			results[i] = solveObl(ctx, vc, o, timeoutMs, dir, sem, agree)
		}(i, o)
	}
	wg.Wait()
	return results
}
