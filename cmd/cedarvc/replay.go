package main

import (
	"bytes"
	"context"
	"encoding/json"
	"fmt"
	"os"
	"os/exec"
	"path/filepath"
	"strings"
	"time"
)

// runReplayDriver injects /verif/drivers/<name>.go as an in-package test of the real code (go test -overlay),
// passing the replay file through CEDAR_REPLAY. The driver prints REPRODUCED when the model's input
// makes the real code violate the clause. Nothing is written to /repo.
func runReplayDriver(driver, replayPath string) bool {
	// driver name: <pkgdir>.<file>, e.g. stream.size_ok
	i := strings.Index(driver, ".")
	if i < 0 {
		return false
	}
	pkgDir := strings.ReplaceAll(driver[:i], "_", "/")
	src := filepath.Join(verifDir, "drivers", driver+"_test.go")
	if _, err := os.Stat(src); err != nil {
		return false
	}
	tmp, err := os.MkdirTemp("", "cedarvc-replay-")
	if err != nil {
		return false
	}
	defer os.RemoveAll(tmp)
	ov := map[string]any{"Replace": map[string]string{filepath.Join(repoDir, pkgDir, "zz_cedarvc_replay_test.go"): src}}
	ob, _ := json.Marshal(ov)
	ovPath := filepath.Join(tmp, "overlay.json")
	os.WriteFile(ovPath, ob, 0o644)
	ctx, cancel := context.WithTimeout(context.Background(), 120*time.Second)
	defer cancel()
	cmd := exec.CommandContext(ctx, "bash", "-c", fmt.Sprintf("ulimit -v 8000000; cd %s && go test -overlay %s -vet=off -count=1 -timeout 60s -run 'TestCedarvcReplay' -v ./%s", repoDir, ovPath, pkgDir))
	cmd.Env = append(goEnv(), "CEDAR_REPLAY="+replayPath)
	var out bytes.Buffer
	cmd.Stdout = &out
	cmd.Stderr = &out
	_ = cmd.Run()
	txt := out.String()
	// append the concrete verdict to the replay file
	var rp map[string]any
	if b, err := os.ReadFile(replayPath); err == nil && json.Unmarshal(b, &rp) == nil {
		if len(txt) > 6000 {
			txt = txt[len(txt)-6000:]
		}
		rp["replay_output"] = txt
		rp["reproduced"] = strings.Contains(txt, "REPRODUCED")
		b, _ := json.MarshalIndent(rp, "", " ")
		os.WriteFile(replayPath, b, 0o644)
	}
	return strings.Contains(out.String(), "REPRODUCED")
}
