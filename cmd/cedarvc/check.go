package main

import (
	"go/types"
	"regexp"
	"context"
	"encoding/json"
	"flag"
	"fmt"
	"os"
	"path/filepath"
	"sort"
	"strings"
	"sync"
	"time"

	"golang.org/x/tools/go/ssa"
)

type KnownFinding struct {
	Property   string `json:"property"`
	Obligation string `json:"obligation"`
	Status     string `json:"status"` // open | fixed
	What       string `json:"what"`
	Commit     string `json:"commit,omitempty"`
	Input      string `json:"failing_input,omitempty"`
}

type Baseline struct {
	Obligations map[string]BaselineEntry `json:"obligations"`
}
type BaselineEntry struct {
	Solver string   `json:"solver"`
	Props  []string `json:"props"`
	SeenBy []string `json:"seen_by,omitempty"` // properties whose baseline run generated and discharged the obligation
}

type checkCfg struct {
	prop      string
	tier      string
	timeoutMs int
	agree     bool
	seed      int
	workDir   string
	writeBase bool
	verbose   bool
}

func hasProp(ps []string, p string) bool {
	for _, x := range ps {
		if x == p {
			return true
		}
	}
	return false
}

// contractsFor selects the functions whose contracts mention the property.
func contractsFor(specs *Specs, prop string) []*Contract {
	var out []*Contract
	for _, k := range sortedKeys(specs.Contracts) {
		c := specs.Contracts[k]
		if c.External {
			continue
		}
		if c.Trusted {
			// only the structural clauses of a trusted contract are checkable (against the body's call instructions);
			// in a swept file the body's safety obligations are generated as for a contract-less function
			sel := hasProp(c.SweepProps, prop)
			for _, nc := range append(append([]*Clause{}, c.NoCalls...), c.CtxFlow...) {
				if hasProp(nc.Props, prop) {
					sel = true
				}
			}
			if sel {
				out = append(out, c)
			}
			continue
		}
		rel := hasProp(c.Props, prop) || hasProp(c.FrameProps, prop) || hasProp(c.SweepProps, prop)
		for _, cl := range append(append([]*Clause{}, c.Ensures...), c.Requires...) {
			if hasProp(cl.Props, prop) {
				rel = true
			}
		}
		for _, a := range c.Asserts {
			if hasProp(a.Clause.Props, prop) {
				rel = true
			}
		}
		for _, nc := range append(append(append([]*Clause{}, c.NoCalls...), c.CallCounts...), c.CtxFlow...) {
			if hasProp(nc.Props, prop) {
				rel = true
			}
		}
		for _, ls := range c.Loops {
			for _, inv := range ls.Invs {
				if hasProp(inv.Props, prop) {
					rel = true
				}
			}
		}
		if rel {
			out = append(out, c)
		}
	}
	return out
}

func oblRelevant(o *Obl, prop string, fnProps []string) bool {
	if len(o.Props) > 0 {
		return hasProp(o.Props, prop)
	}
	return hasProp(fnProps, prop)
}

func loadKnown() []KnownFinding {
	var kf struct {
		Findings []KnownFinding `json:"findings"`
	}
	b, err := os.ReadFile(filepath.Join(verifDir, "known_findings.json"))
	if err != nil {
		return nil
	}
	_ = json.Unmarshal(b, &kf)
	return kf.Findings
}

func loadBaseline() *Baseline {
	bl := &Baseline{Obligations: map[string]BaselineEntry{}}
	b, err := os.ReadFile(filepath.Join(verifDir, "baseline", "obligations.json"))
	if err == nil {
		_ = json.Unmarshal(b, bl)
	}
	return bl
}

type funcRun struct {
	vc      *FuncVC
	results []*OblResult
	ct      *Contract
}

func cmdCheck(args []string) int {
	fs := flag.NewFlagSet("check", flag.ExitOnError)
	prop := fs.String("prop", "", "property id")
	tier := fs.String("tier", "quick", "quick|thorough")
	writeBase := fs.Bool("write-baseline", false, "record discharged obligations of this property in baseline/obligations.json")
	verbose := fs.Bool("v", false, "verbose")
	fs.Parse(args)
	if *prop == "" {
		fmt.Fprintln(os.Stderr, "check: -prop required")
		return 2
	}
	cfg := checkCfg{prop: *prop, tier: *tier, timeoutMs: 10000, writeBase: *writeBase, verbose: *verbose}
	if *tier == "thorough" {
		cfg.timeoutMs = 60000
		cfg.agree = true
	}
	if t := os.Getenv("VERIF_TIER"); t != "" && *tier == "" {
		cfg.tier = t
	}
	fmt.Sscanf(os.Getenv("VERIF_SEED"), "%d", &cfg.seed)
	return runCheck(cfg)
}

func runCheck(cfg checkCfg) int {
	start := time.Now()
	specs, err := loadSpecs()
	if err != nil {
		fmt.Fprintln(os.Stderr, "spec error:", err)
		return 2
	}
	ld, err := loadRepo(repoDir, []string{"./..."})
	if err != nil {
		fmt.Fprintln(os.Stderr, "load error:", err)
		return 2
	}
	ld.expandSweeps(specs)
	loadSecs := time.Since(start).Seconds()
	cts := contractsFor(specs, cfg.prop)
	work, _ := os.MkdirTemp("", "cedarvc-"+cfg.prop+"-")
	defer os.RemoveAll(work)
	var runs []*funcRun
	var missing []string
	for _, ct := range cts {
		fn := ld.lookupFunc(ct.Key)
		if fn == nil {
			missing = append(missing, ct.Key)
			continue
		}
		var vc *FuncVC
		if ct.Trusted && hasProp(ct.SweepProps, cfg.prop) {
			thin := &Contract{Key: ct.Key, Pkg: ct.Pkg, Loops: map[int]*LoopSpec{}, Where: ct.Where, Thin: true, SweepProps: ct.SweepProps, NoCalls: ct.NoCalls, CtxFlow: ct.CtxFlow}
			vc = genFunction(ld, specs, fn, thin, GenOpts{Safety: true, Prop: cfg.prop})
			vc.Contract = thin
			runs = append(runs, &funcRun{vc: vc, ct: thin})
			continue
		} else if ct.Trusted {
			vc = genStructural(ld, specs, fn, ct)
		} else {
			vc = genFunction(ld, specs, fn, ct, GenOpts{Safety: true, Prop: cfg.prop})
		}
		runs = append(runs, &funcRun{vc: vc, ct: ct})
	}
	// interface refinements whose contracts carry the property
	for _, rf := range specs.Refinements {
		ict := specs.Contracts[rf.Iface]
		if ict == nil {
			continue
		}
		rel := hasProp(ict.Props, cfg.prop)
		for _, cl := range ict.Ensures {
			if hasProp(cl.Props, cfg.prop) {
				rel = true
			}
		}
		if rel {
			runs = append(runs, &funcRun{vc: genRefinement(ld, specs, rf)})
		}
	}
	// lemmas
	lemVC := genLemmas(ld, specs, cfg.prop)
	if lemVC != nil {
		runs = append(runs, &funcRun{vc: lemVC})
	}
	for name, be := range loadBaseline().Obligations {
		solverHint[name] = be.Solver
	}
	sem := make(chan struct{}, 16)
	var wg sync.WaitGroup
	solveStart := time.Now()
	for _, r := range runs {
		// only the obligations relevant to this property are sent to the solvers
		var keep []*Obl
		var fnProps []string
		if r.ct != nil {
			fnProps = r.ct.Props
		}
		for _, o := range r.vc.Obls {
			if oblRelevant(o, cfg.prop, fnProps) {
				keep = append(keep, o)
			}
		}
		r.vc.Obls = keep
		wg.Add(1)
		go func(r *funcRun) {
			defer wg.Done()
			r.results = solveFunc(context.Background(), r.vc, cfg.timeoutMs, work, sem, cfg.agree)
		}(r)
	}
	wg.Wait()
	// an obligation nobody decided is retried once, alone, with a longer limit on all solvers, before it counts
	retried := 0
	// selftest runs (CEDAR_FAILFAST=1) only need to know that the change is reported: once some obligation has a
	// counterexample the verdict is settled and the undecided rest is not retried at four times the budget
	failFast := false
	if os.Getenv("CEDAR_FAILFAST") != "" {
		for _, r := range runs {
			for _, res := range r.results {
				if res.Status == "failed" && !res.Obl.Vac {
					failFast = true
				}
			}
		}
	}
	for _, r := range runs {
		for i, res := range r.results {
			if res.Status == "undecided" && !failFast {
				retried++
				wg.Add(1)
				go func(r *funcRun, i int) {
					defer wg.Done()
					r.results[i] = solveObl(context.Background(), r.vc, r.results[i].Obl, cfg.timeoutMs*4, work, sem, true)
				}(r, i)
			}
		}
	}
	wg.Wait()
	solveSecs := time.Since(solveStart).Seconds()

	known := loadKnown()
	baseline := loadBaseline()
	isKnown := func(name string) *KnownFinding {
		for i := range known {
			if known[i].Property == cfg.prop && known[i].Obligation == name && known[i].Status == "open" {
				return &known[i]
			}
		}
		return nil
	}
	type oblRec struct {
		Name    string            `json:"name"`
		Kind    string            `json:"kind"`
		Status  string            `json:"status"`
		Solver  string            `json:"solver,omitempty"`
		Answers map[string]string `json:"answers,omitempty"`
		Pos     string            `json:"pos,omitempty"`
		Secs    float64           `json:"secs,omitempty"`
	}
	var recs []oblRec
	var violations []string
	var knownHits []string
	nObl, nDis, nVac := 0, 0, 0
	var undecided, genErrors, specErrs []string
	var funcs []string
	assumed := map[string]bool{}
	notes := map[string]bool{}
	exit := 0
	os.MkdirAll(filepath.Join(outDir(), "replays"), 0o755)
	newBase := map[string]BaselineEntry{}
	for _, r := range runs {
		funcs = append(funcs, r.vc.Label)
		if r.vc.GenErr != "" {
			genErrors = append(genErrors, r.vc.Label+": "+r.vc.GenErr)
		}
		specErrs = append(specErrs, r.vc.SpecErrors...)
		for k, how := range r.vc.Callees {
			if how == "assumed" || how == "havoc" || how == "invoke" {
				assumed[how+": "+strings.ReplaceAll(k, "github.com/bbockelm/cedar/", "")] = true
			}
		}
		for _, n := range r.vc.Notes {
			notes[n] = true
		}
		for _, res := range r.results {
			o := res.Obl
			rec := oblRec{Name: o.Name, Kind: o.Kind, Status: res.Status, Solver: res.Solver, Answers: res.Answers, Pos: o.Pos, Secs: res.Secs}
			recs = append(recs, rec)
			if o.Vac {
				nVac++
				if res.Status == "vacuous" {
					violations = append(violations, fmt.Sprintf("BROKEN-CHECK property=%s vacuous contract: %s", cfg.prop, o.Name))
					exit = 3
				}
				continue
			}
			if kf := isKnown(o.Name); kf != nil {
				if res.Status == "discharged" {
					fmt.Printf("NOTE: known finding %s now discharges (listed as open)\n", o.Name)
				} else {
					knownHits = append(knownHits, fmt.Sprintf("KNOWN-FINDING: property=%s %s: %s", cfg.prop, o.Name, kf.What))
				}
				continue
			}
			nObl++
			switch res.Status {
			case "discharged":
				nDis++
				newBase[o.Name] = BaselineEntry{Solver: res.Solver, Props: o.Props}
			case "failed", "undecided":
				_, inBase := baseline.Obligations[o.Name]
				safetySat := res.Status == "failed" && isSafetyKind(o.Kind)
				// labelled obligations (ensures, requires at call sites, invariants, frames, lemmas) must discharge on every
				// run; ordinal-named safety obligations of new code shapes alarm only with a model or when they were in the baseline
				if inBase || safetySat || !isSafetyKind(o.Kind) || res.Status == "failed" {
					path := writeReplay(cfg.prop, o, res)
					suffix := " no-failing-input-found"
					if res.Status == "failed" && len(res.Model) > 0 {
						if ok := tryReplay(cfg, o, res, path) || autoReplay(r.vc, o, res, path); ok {
							suffix = ""
						}
					}
					violations = append(violations, fmt.Sprintf("VIOLATION property=%s replay=%s%s", cfg.prop, path, suffix))
					fmt.Printf("  failed obligation: %s [%s] status=%s answers=%v\n", o.Name, o.Pos, res.Status, res.Answers)
					if exit == 0 {
						exit = 1
					}
				} else {
					undecided = append(undecided, o.Name)
				}
			}
		}
	}
	// obligations of the baseline that are no longer generated
	var gone []string
	for name, be := range baseline.Obligations {
		if !hasProp(be.SeenBy, cfg.prop) {
			continue
		}
		found := false
		for _, rc := range recs {
			if rc.Name == name {
				found = true
				break
			}
		}
		if !found {
			gone = append(gone, name)
		}
	}
	sort.Strings(gone)
	// a labelled obligation (postcondition, invariant, frame, in-body assert, callee precondition, lemma) that was
	// discharged at baseline time and is no longer generated is a violation: the code it pinned down is gone
	safetyName := regexp.MustCompile(`#(index|slice|make|alloc|panic|divzero|typeassert|nilmap|overflow|recursion|f2i|guarded_by|nilderef)#[-\w]*\d+`)
	for _, name := range gone {
		if cfg.writeBase {
			// re-baselining: this property no longer generates the entry
			be := baseline.Obligations[name]
			var keep []string
			for _, p := range be.SeenBy {
				if p != cfg.prop {
					keep = append(keep, p)
				}
			}
			be.SeenBy = keep
			if len(keep) == 0 {
				delete(baseline.Obligations, name)
			} else {
				baseline.Obligations[name] = be
			}
			continue
		}
		if safetyName.MatchString(name) {
			continue
		}
		o := &Obl{Name: name, Kind: "missing-obligation"}
		path := writeReplay(cfg.prop, o, &OblResult{Obl: o, Status: "not-generated", Raw: "the obligation was discharged on the baseline tree and the current tree no longer generates it (the call site, loop or function it is attached to has gone)"})
		violations = append(violations, fmt.Sprintf("VIOLATION property=%s replay=%s no-failing-input-found", cfg.prop, path))
		fmt.Printf("  failed obligation: %s status=not-generated\n", name)
		if exit == 0 {
			exit = 1
		}
	}
	// a contract whose function no longer exists cannot be checked at all
	for _, k := range missing {
		if i := strings.LastIndex(k, "."); i > 0 && !strings.HasPrefix(k, "(") {
			if t := ld.lookupType(k[:i]); t != nil {
				if _, isIface := t.Underlying().(*types.Interface); isIface {
					continue // interface method contract: applied at invoke sites, proved by refinement
				}
			}
		}
		o := &Obl{Name: k + "#contract-target-missing", Kind: "missing-function"}
		path := writeReplay(cfg.prop, o, &OblResult{Obl: o, Status: "not-generated", Raw: "a contract tagged with this property names a function that the current tree does not define"})
		violations = append(violations, fmt.Sprintf("VIOLATION property=%s replay=%s no-failing-input-found", cfg.prop, path))
		fmt.Printf("  failed obligation: %s status=not-generated\n", o.Name)
		if exit == 0 {
			exit = 1
		}
	}
	for _, se := range specErrs {
		fmt.Println("SPEC-ERROR:", se)
	}
	for _, ge := range genErrors {
		fmt.Println("GENERATOR-ERROR:", ge)
	}
	if (len(specErrs) > 0 || len(genErrors) > 0 || nObl == 0) && exit == 0 {
		// a check that generated nothing proves nothing
		fmt.Printf("BROKEN-CHECK property=%s: %d spec errors, %d generator errors, %d obligations\n", cfg.prop, len(specErrs), len(genErrors), nObl)
		exit = 3
	}
	for _, k := range knownHits {
		fmt.Println(k)
	}
	for _, v := range violations {
		fmt.Println(v)
	}
	// evidence
	var samples []any
	for i, rc := range recs {
		if i%maxInt(1, len(recs)/6) == 0 && len(samples) < 8 {
			samples = append(samples, rc)
		}
	}
	var trusted []string
	for k := range assumed {
		trusted = append(trusted, k)
	}
	sort.Strings(trusted)
	trusted = append(trusted,
		"generator: cedarvc go/ssa -> SMT translation (DESIGN.md section 2)",
		"solvers: z3-new 5.1.0, z3 4.8.12, cvc5 1.0.3 (first definitive answer; thorough: all must not disagree)",
		"arithmetic: int/int64 + - * assumed not to overflow unless the contract says `overflow`; fixed-width unsigned and narrower signed types wrap exactly",
		"receivers assumed non-nil; nil-pointer dereference not checked",
		"spec files: "+strings.Join(relFiles(specs.Files), ", "))
	var noteList []string
	for n := range notes {
		noteList = append(noteList, n)
	}
	sort.Strings(noteList)
	level := "proof"
	ev := map[string]any{
		"property_id": cfg.prop,
		"tier":        cfg.tier,
		"seed":        cfg.seed,
		"level":       level,
		"wall_s":      time.Since(start).Seconds(),
		"violations":  len(violations),
		"coverage": map[string]any{
			"obligations":               nObl,
			"discharged":                nDis,
			"checker_cmd":               fmt.Sprintf("bin/cedarvc check -prop %s -tier %s", cfg.prop, cfg.tier),
			"trusted_base":              trusted,
			"functions_under_contract":  funcs,
			"vacuity_queries":           nVac,
			"undecided_new_obligations": undecided,
			"baseline_obligations_no_longer_generated": gone,
			"known_findings_hit":                       knownHits,
			"contracts_missing_function":               missing,
			"samples":                                  samples,
			"obligation_results":                       recs,
			"solver_seconds":                           solveSecs,
			"load_seconds":                             loadSecs,
			"abstraction_notes":                        noteList,
			"assume_token_scan":                        specs.Tokens,
			"timeout_ms_per_obligation":                cfg.timeoutMs,
		},
		"assumptions": trusted,
	}
	os.MkdirAll(filepath.Join(outDir(), "evidence"), 0o755)
	b, _ := json.MarshalIndent(ev, "", " ")
	os.WriteFile(filepath.Join(outDir(), "evidence", cfg.prop+".json"), b, 0o644)
	if cfg.writeBase {
		for k, v := range newBase {
			if old, ok := baseline.Obligations[k]; ok {
				v.SeenBy = old.SeenBy
			}
			if !hasProp(v.SeenBy, cfg.prop) {
				v.SeenBy = append(v.SeenBy, cfg.prop)
				sort.Strings(v.SeenBy)
			}
			baseline.Obligations[k] = v
		}
		bb, _ := json.MarshalIndent(baseline, "", " ")
		os.MkdirAll(filepath.Join(verifDir, "baseline"), 0o755)
		os.WriteFile(filepath.Join(verifDir, "baseline", "obligations.json"), bb, 0o644)
	}
	fmt.Printf("property %s: %d/%d obligations discharged over %d functions (%d known findings, %d undecided-new) in %.1fs\n",
		cfg.prop, nDis, nObl, len(funcs), len(knownHits), len(undecided), time.Since(start).Seconds())
	return exit
}

// outDir is where evidence and replay files go: /verif, or $CEDAR_OUT for selftest runs on scratch trees.
func outDir() string {
	if d := os.Getenv("CEDAR_OUT"); d != "" {
		return d
	}
	return verifDir
}

func isSafetyKind(k string) bool {
	switch k {
	case "index", "slice", "make", "alloc-bound", "panic", "divzero", "typeassert", "nilmap", "overflow", "recursion", "nilderef":
		return true
	}
	return false
}

func maxInt(a, b int) int {
	if a > b {
		return a
	}
	return b
}

func relFiles(fs []string) []string {
	var out []string
	for _, f := range fs {
		f = strings.TrimPrefix(f, "/repo/")
		f = strings.TrimPrefix(f, "/verif/")
		out = append(out, f)
	}
	return out
}

func writeReplay(prop string, o *Obl, res *OblResult) string {
	path := filepath.Join(outDir(), "replays", prop+"-"+sanitize(o.Name)+".json")
	rp := map[string]any{
		"property":   prop,
		"obligation": o.Name,
		"kind":       o.Kind,
		"position":   o.Pos,
		"status":     res.Status,
		"answers":    res.Answers,
		"model":      res.Model,
		"solver_output": func() string {
			if len(res.Raw) > 4000 {
				return res.Raw[:4000]
			}
			return res.Raw
		}(),
		"driver": o.Replay,
	}
	b, _ := json.MarshalIndent(rp, "", " ")
	os.WriteFile(path, b, 0o644)
	return path
}

// tryReplay runs the replay driver of a failed obligation against the real code, if one is registered.
func tryReplay(cfg checkCfg, o *Obl, res *OblResult, path string) bool {
	if o.Replay == "" {
		return false
	}
	return runReplayDriver(o.Replay, path)
}

func genLemmas(ld *Loader, specs *Specs, prop string) *FuncVC {
	var ls []*Lemma
	for _, l := range specs.Lemmas {
		if hasProp(l.Props, prop) {
			ls = append(ls, l)
		}
	}
	if len(ls) == 0 {
		return nil
	}
	return genLemmaVC(ld, specs, ls)
}

var _ = ssa.BuilderMode(0)
