package main

import (
	"fmt"
	"go/token"
	"go/types"
	"sort"

	"golang.org/x/tools/go/ssa"
)

func (tr *Trans) safety(kind string, in ssa.Instruction, goal Term) {
	if !tr.g.opts.Safety || tr.g.dry > 0 {
		return
	}
	if goal.S == "true" {
		return
	}
	ord := tr.ordinal(kind, in)
	tr.e.oblige(&Obl{Name: fmt.Sprintf("%s#%s#%d", tr.label, kind, ord), Kind: kind, Cond: tr.rc, Goal: goal,
		Pos: tr.posOf(in), Fn: tr.label, Props: tr.safetyProps()})
}

// nilDerefCheck: a pointer that came back from a call the verifier understands (a callee of the repository with a contract) or out of a map must be shown non-nil before a field of it is touched. Pointers that are
// parameters, receivers, fields or results of contract-less calls are assumed non-nil (listed as an assumption).
func (tr *Trans) nilDerefCheck(in ssa.Instruction, p ssa.Value, ref Term) {
	if !tr.g.opts.Safety || tr.g.dry > 0 {
		return
	}
	if !tr.knownPtrSource(p, 0) {
		return
	}
	tr.safety("nilderef", in, not(eq(ref, intT(0))))
}

// knownPtrSource: every way the pointer can have been produced is one the verifier has facts about -- the result of a
// repository callee with a contract, a map lookup, or nil itself (at least one non-nil source is required by the caller
// through the phi case).
func (tr *Trans) knownPtrSource(p ssa.Value, depth int) bool {
	if depth > 4 {
		return false
	}
	src := p
	if ex, ok := src.(*ssa.Extract); ok {
		src = ex.Tuple
	}
	switch c := src.(type) {
	case *ssa.Call:
		if sc := c.Call.StaticCallee(); sc != nil && inRepo(sc) {
			// an inlined helper is checked in place (its own dereferences generate these obligations); what it
			// returns may be the unconstrained result of an external call, so only contract results are checked
			return tr.g.calleesUsed[sc.String()] == "contract"
		}
	case *ssa.Lookup:
		if mt, ok := under(c.X.Type()).(*types.Map); ok {
			if mk := mapKeys(mt); mk != nil && len(mk.vals) > 0 {
				return true
			}
		}
	case *ssa.Phi:
		some := false
		for _, e := range c.Edges {
			if k, ok := e.(*ssa.Const); ok && k.IsNil() {
				continue
			}
			if !tr.knownPtrSource(e, depth+1) {
				return false
			}
			some = true
		}
		return some
	}
	return false
}

// recvNilCheck: calling a pointer-receiver method of the repository on a pointer from a known source: the receiver must
// be non-nil unless the method itself compares its receiver with nil.
func (tr *Trans) recvNilCheck(in ssa.Instruction, c *ssa.CallCommon, args []Val) {
	fn, ok := c.Value.(*ssa.Function)
	if !ok || fn.Signature.Recv() == nil || len(fn.Params) == 0 || len(c.Args) == 0 || len(args) == 0 || len(args[0].C) != 1 {
		return
	}
	if _, isPtr := fn.Signature.Recv().Type().(*types.Pointer); !isPtr || !inRepo(fn) {
		return
	}
	for _, b := range fn.Blocks {
		for _, i := range b.Instrs {
			if bo, ok := i.(*ssa.BinOp); ok && (bo.X == fn.Params[0] || bo.Y == fn.Params[0]) {
				return
			}
		}
	}
	tr.nilDerefCheck(in, c.Args[0], args[0].C[0])
}

func (tr *Trans) safetyProps() []string {
	return []string{"C13"}
}

// ordinal numbers an instruction among the instructions of the same SSA kind in this function,
// in source order, so obligation names do not depend on SSA value names.
func (tr *Trans) ordinal(kind string, in ssa.Instruction) int {
	if tr.ordCache == nil {
		tr.ordCache = map[ssa.Instruction]int{}
		byType := map[string][]ssa.Instruction{}
		for _, b := range tr.fn.Blocks {
			for _, i := range b.Instrs {
				k := fmt.Sprintf("%T", i)
				byType[k] = append(byType[k], i)
			}
		}
		for _, list := range byType {
			sort.SliceStable(list, func(a, b int) bool {
				pa, pb := list[a].Pos(), list[b].Pos()
				if pa != pb {
					return pa < pb
				}
				return false
			})
			for n, i := range list {
				tr.ordCache[i] = n + 1
			}
		}
	}
	return tr.ordCache[in]
}

func (tr *Trans) instr(in ssa.Instruction) {
	tr.curInstr = in
	switch x := in.(type) {
	case *ssa.DebugRef:
	case *ssa.Alloc:
		tr.alloc(x)
	case *ssa.FieldAddr:
		base := tr.val(x.X)
		pt := under(x.X.Type()).(*types.Pointer).Elem()
		st := under(pt).(*types.Struct)
		fv := st.Field(x.Field)
		if len(base.C) != 1 {
			tr.e.note("%s: FieldAddr on untracked base", tr.label)
			tr.vals[x] = Val{T: x.Type(), Addr: &Addr{Kind: AddrOpaque, T: fv.Type()}}
			return
		}
		tr.nilDerefCheck(x, x.X, base.C[0])
		if isObjType(fv.Type()) {
			// taking the address of an embedded struct/array field counts as an access for the lock discipline
			write := false
			if refs := x.Referrers(); refs != nil {
				for _, r := range *refs {
					if st, ok := r.(*ssa.Store); ok && st.Addr == x {
						write = true
					}
				}
			}
			tr.checkGuarded(&Addr{Kind: AddrField, Base: base.C[0], Field: fv.Name(), ST: pt, FV: fv}, write)
			tr.setVal(x, Val{T: x.Type(), C: []Term{tr.g.fr(tr.e, pt, fv.Name(), base.C[0])}})
		} else {
			tr.vals[x] = Val{T: x.Type(), Addr: newFieldAddr(pt, fv, base.C[0])}
		}
	case *ssa.Field:
		sv := tr.val(x.X)
		stt := under(x.X.Type()).(*types.Struct)
		off := 0
		for i := 0; i < x.Field; i++ {
			off += ncomps(stt.Field(i).Type())
		}
		n := ncomps(stt.Field(x.Field).Type())
		if off+n <= len(sv.C) {
			tr.vals[x] = Val{T: x.Type(), C: sv.C[off : off+n]}
		} else {
			tr.vals[x] = tr.freshVal(x.Type(), "field", tr.st, tr.rc)
		}
	case *ssa.IndexAddr:
		tr.indexAddr(x)
	case *ssa.Index:
		av := tr.val(x.X)
		idx := tr.val(x.Index).C[0]
		switch u := under(x.X.Type()).(type) {
		case *types.Array:
			tr.safety("index", x, and(le(intT(0), idx), lt(idx, intT(u.Len()))))
			if len(av.C) == 1 && comps(x.X.Type())[0].Role == "array" {
				v := Val{T: x.Type(), C: []Term{sel(av.C[0], idx)}}
				tr.assumeTyped(v, tr.st, tr.rc)
				tr.setVal(x, v)
			} else {
				tr.vals[x] = tr.freshVal(x.Type(), "idx", tr.st, tr.rc)
			}
		case *types.Basic: // string index
			tr.safety("index", x, and(le(intT(0), idx), lt(idx, tr.g.strLen(tr.e, av.C[0]))))
			v := Val{T: x.Type(), C: []Term{tr.g.strAt(tr.e, av.C[0], idx)}}
			tr.e.assume(tr.rc, inRange(v.C[0], "0", "255"))
			tr.setVal(x, v)
		default:
			tr.vals[x] = tr.freshVal(x.Type(), "idx", tr.st, tr.rc)
		}
	case *ssa.UnOp:
		tr.unop(x)
	case *ssa.Store:
		p := tr.val(x.Addr)
		t := under(x.Addr.Type()).(*types.Pointer).Elem()
		tr.storeTo(p, t, tr.val(x.Val))
	case *ssa.BinOp:
		tr.binop(x)
	case *ssa.Convert:
		tr.convert(x)
	case *ssa.ChangeType:
		v := tr.val(x.X)
		v.T = x.Type()
		tr.vals[x] = v
	case *ssa.ChangeInterface:
		v := tr.val(x.X)
		tr.vals[x] = Val{T: x.Type(), C: v.C}
	case *ssa.MakeInterface:
		tr.makeInterface(x)
	case *ssa.TypeAssert:
		tr.typeAssert(x)
	case *ssa.Extract:
		tv := tr.val(x.Tuple)
		tup := x.Tuple.Type().(*types.Tuple)
		off := 0
		for i := 0; i < x.Index; i++ {
			off += ncomps(tup.At(i).Type())
		}
		n := ncomps(tup.At(x.Index).Type())
		if off+n <= len(tv.C) {
			tr.vals[x] = Val{T: x.Type(), C: tv.C[off : off+n]}
		} else {
			tr.vals[x] = tr.freshVal(x.Type(), "extract", tr.st, tr.rc)
		}
	case *ssa.Slice:
		tr.slice(x)
	case *ssa.MakeSlice:
		tr.makeSlice(x)
	case *ssa.MakeMap:
		r := tr.allocRef(tr.st)
		// empty map
		mt := under(x.Type()).(*types.Map)
		if mk := mapKeys(mt); mk != nil {
			h := tr.st.get(tr.e, mk.has, mk.hasSort)
			tr.st.set(mk.has, tr.e.name("H", store(h, r, zeroOfSort(mk.hasSort.elem()))))
			hl := tr.st.get(tr.e, mk.length, arrSort(SInt, SInt))
			tr.st.set(mk.length, tr.e.name("H", store(hl, r, intT(0))))
		}
		tr.vals[x] = Val{T: x.Type(), C: []Term{r}}
	case *ssa.MapUpdate:
		tr.mapUpdate(x)
	case *ssa.Lookup:
		tr.lookup(x)
	case *ssa.Range:
		rv := Val{T: x.Type(), C: []Term{tr.e.fresh("iter", SInt)}, Bind: []Val{tr.val(x.X)}}
		if mt, isMap := under(x.X.Type()).(*types.Map); isMap {
			if mk := mapKeys(mt); mk != nil {
				// ghost set of the keys this iteration has produced so far
				key := fmt.Sprintf("L$iter$%d$%d", tr.id, tr.ordinal("range", x))
				vs := arrSort(mk.ksort, SBool)
				tr.st.set(key, zeroOfSort(vs))
				rv.Lit = &key
			}
		}
		tr.vals[x] = rv
	case *ssa.Next:
		tr.next(x)
	case *ssa.MakeClosure:
		fn := x.Fn.(*ssa.Function)
		var binds []Val
		for _, b := range x.Bindings {
			binds = append(binds, tr.val(b))
		}
		tr.vals[x] = Val{T: x.Type(), Fn: fn, Bind: binds, C: []Term{tr.e.fresh("closure", SInt)}}
	case *ssa.Call:
		res := tr.call(&x.Call, x, x.Type())
		tr.setVal(x, res)
	case *ssa.Defer:
		for _, d := range tr.defers {
			if d.instr == x {
				tr.st.set(d.key, tTrue)
				// evaluate arguments now
				for _, a := range x.Call.Args {
					tr.val(a)
				}
				tr.val(x.Call.Value)
			}
		}
	case *ssa.RunDefers:
		tr.runDefers()
	case *ssa.Return:
		var rs []Val
		for _, r := range x.Results {
			rs = append(rs, tr.val(r))
		}
		tr.rets = append(tr.rets, retInfo{cond: tr.rc, st: tr.st, results: rs, block: tr.cur, instr: x})
	case *ssa.If:
		c := tr.val(x.Cond).C[0]
		c = tr.e.name(fmt.Sprintf("c$%d$b%d", tr.id, tr.cur.Index), c)
		b := tr.cur
		tr.edge[[2]*ssa.BasicBlock{b, b.Succs[0]}] = and(tr.rc, c)
		if b.Succs[1] == b.Succs[0] {
			tr.edge[[2]*ssa.BasicBlock{b, b.Succs[0]}] = tr.rc
		} else {
			tr.edge[[2]*ssa.BasicBlock{b, b.Succs[1]}] = and(tr.rc, not(c))
		}
	case *ssa.Jump:
		tr.edge[[2]*ssa.BasicBlock{tr.cur, tr.cur.Succs[0]}] = tr.rc
	case *ssa.Panic:
		if tr.g.opts.Safety && tr.g.dry == 0 {
			ord := tr.ordinal("panic", x)
			tr.e.oblige(&Obl{Name: fmt.Sprintf("%s#panic#%d", tr.label, ord), Kind: "panic", Cond: tr.rc, Goal: tFalse,
				Pos: tr.posOf(x), Fn: tr.label, Props: tr.safetyProps()})
		}
	case *ssa.Go, *ssa.Select, *ssa.Send, *ssa.MakeChan:
		tr.g.abstracted[fmt.Sprintf("%T", in)]++
		tr.e.note("%s: concurrency instruction %T not translated (heap havocked)", tr.label, in)
		tr.st = tr.g.havocAll(tr.st, nil)
		if v, ok := in.(ssa.Value); ok {
			r := tr.freshVal(v.Type(), "conc", tr.st, tr.rc)
			if sel, isSel := in.(*ssa.Select); isSel && len(r.C) >= 1 {
				// the chosen case is one of the listed ones (or -1 for a non-blocking select that took none)
				lo := 0
				if !sel.Blocking {
					lo = -1
				}
				tr.e.assume(tr.rc, and(ge(r.C[0], intT(int64(lo))), lt(r.C[0], intT(int64(len(sel.States))))))
			}
			tr.vals[v] = r
		}
	case *ssa.SliceToArrayPointer:
		sv := tr.val(x.X)
		tr.vals[x] = Val{T: x.Type(), C: []Term{sv.C[0]}}
		tr.e.note("%s: SliceToArrayPointer ignores offset", tr.label)
	default:
		tr.g.abstracted[fmt.Sprintf("%T", in)]++
		tr.e.note("%s: instruction %T abstracted", tr.label, in)
		if v, ok := in.(ssa.Value); ok {
			tr.vals[v] = tr.freshVal(v.Type(), "abs", tr.st, tr.rc)
		}
	}
}

func (tr *Trans) alloc(x *ssa.Alloc) {
	pt := under(x.Type()).(*types.Pointer).Elem()
	if isObjType(pt) {
		r := tr.allocRef(tr.st)
		z := tr.zeroVal(pt)
		tr.storeObj(tr.st, pt, r, z)
		tr.zeroLocks(pt, r)
		tr.vals[x] = Val{T: x.Type(), C: []Term{r}}
		return
	}
	key := fmt.Sprintf("L$%d$%s", tr.id, x.Name())
	tr.writeCell(tr.st, key, pt, tr.zeroVal(pt))
	tr.vals[x] = Val{T: x.Type(), Addr: &Addr{Kind: AddrCell, Key: key, T: pt}}
}

func (tr *Trans) indexAddr(x *ssa.IndexAddr) {
	bv := tr.val(x.X)
	idx := tr.val(x.Index).C[0]
	switch u := under(x.X.Type()).(type) {
	case *types.Slice:
		if len(bv.C) != 4 {
			tr.vals[x] = Val{T: x.Type(), Addr: &Addr{Kind: AddrOpaque, T: u.Elem()}}
			return
		}
		tr.safety("index", x, and(le(intT(0), idx), lt(idx, bv.C[2])))
		tr.g.noteIndex(idx)
		if isObjType(u.Elem()) {
			// element objects: derived ref from (array ref, index)
			f := tr.e.declareFun("elemref", []Sort{SInt, SInt}, SInt)
			r := Term{fmt.Sprintf("(%s %s %s)", f, bv.C[0].S, add(bv.C[1], idx).S), SInt}
			tr.e.assume(tr.rc, lt(r, intT(-2000000)))
			tr.vals[x] = Val{T: x.Type(), C: []Term{r}}
			return
		}
		tr.vals[x] = Val{T: x.Type(), Addr: &Addr{Kind: AddrElem, Base: bv.C[0], Idx: tr.e.name("ix", add(bv.C[1], idx)), T: u.Elem()}}
	case *types.Pointer:
		at := under(u.Elem()).(*types.Array)
		tr.safety("index", x, and(le(intT(0), idx), lt(idx, intT(at.Len()))))
		if len(bv.C) != 1 {
			tr.vals[x] = Val{T: x.Type(), Addr: &Addr{Kind: AddrOpaque, T: at.Elem()}}
			return
		}
		if isObjType(at.Elem()) {
			f := tr.e.declareFun("elemref", []Sort{SInt, SInt}, SInt)
			r := Term{fmt.Sprintf("(%s %s %s)", f, bv.C[0].S, idx.S), SInt}
			tr.vals[x] = Val{T: x.Type(), C: []Term{r}}
			return
		}
		tr.vals[x] = Val{T: x.Type(), Addr: &Addr{Kind: AddrElem, Base: bv.C[0], Idx: idx, T: at.Elem()}}
	default:
		tr.vals[x] = Val{T: x.Type(), Addr: &Addr{Kind: AddrOpaque}}
	}
}

func (tr *Trans) unop(x *ssa.UnOp) {
	switch x.Op {
	case token.MUL: // load
		p := tr.val(x.X)
		t := under(x.X.Type()).(*types.Pointer).Elem()
		v := tr.load(p, t)
		v.T = x.Type()
		tr.setVal(x, v)
	case token.NOT:
		tr.setVal(x, Val{T: x.Type(), C: []Term{not(tr.val(x.X).C[0])}})
	case token.SUB:
		v := tr.val(x.X)
		if isFloat(x.Type()) {
			tr.setVal(x, Val{T: x.Type(), C: []Term{app(SReal, "-", v.C[0])}})
			return
		}
		r := sub(intT(0), v.C[0])
		if isUnsigned(x.Type()) {
			r = wrapInt(r, x.Type())
		} else {
			r = tr.signedResult(r, x.Type(), x)
		}
		tr.setVal(x, Val{T: x.Type(), C: []Term{r}})
	case token.XOR: // bitwise complement
		v := tr.val(x.X)
		if isUnsigned(x.Type()) {
			w, _ := intBits(x.Type())
			tr.setVal(x, Val{T: x.Type(), C: []Term{sub(bigT(subOne(pow2(w))), v.C[0])}})
		} else {
			tr.setVal(x, Val{T: x.Type(), C: []Term{sub(intT(-1), v.C[0])}})
		}
	case token.ARROW:
		tr.g.abstracted["chan recv"]++
		tr.e.note("%s: channel receive not translated (heap havocked)", tr.label)
		tr.st = tr.g.havocAll(tr.st, nil)
		tr.vals[x] = tr.freshVal(x.Type(), "recv", tr.st, tr.rc)
	default:
		tr.vals[x] = tr.freshVal(x.Type(), "unop", tr.st, tr.rc)
	}
}

// signedResult handles the no-overflow assumption (or obligation) for int/int64 and wraps narrower types.
func (tr *Trans) signedResult(r Term, t types.Type, in ssa.Instruction) Term {
	w, _ := intBits(t)
	if w < 64 {
		return wrapInt(r, t)
	}
	r = tr.e.name("ar", r)
	lo, hi := intRange(t)
	if tr.contract != nil && tr.contract.Overflow && tr.top {
		tr.safety("overflow", in, inRange(r, lo, hi))
	}
	tr.e.assume(tr.rc, inRange(r, lo, hi))
	return r
}

func bitOf(x Term, k uint) Term { // ((x div 2^k) mod 2)
	if k == 0 {
		return imod(x, intT(2))
	}
	return imod(idiv(x, bigT(pow2(k))), intT(2))
}

func constBits(c string) (bits []uint, ok bool) {
	// parse small nonneg decimal constants
	var v uint64
	if len(c) == 0 || len(c) > 19 {
		return nil, false
	}
	for _, ch := range c {
		if ch < '0' || ch > '9' {
			return nil, false
		}
		v = v*10 + uint64(ch-'0')
	}
	for k := uint(0); k < 64; k++ {
		if v&(1<<k) != 0 {
			bits = append(bits, k)
		}
	}
	return bits, true
}

func isLowMask(bits []uint) bool { // bits 0..n-1
	for i, b := range bits {
		if b != uint(i) {
			return false
		}
	}
	return len(bits) > 0
}

func (tr *Trans) bitop(op token.Token, a, b Term, t types.Type) (Term, bool) {
	// one side constant
	try := func(x, c Term) (Term, bool) {
		bits, ok := constBits(c.S)
		if !ok {
			return Term{}, false
		}
		switch op {
		case token.AND:
			if len(bits) == 0 {
				return intT(0), true
			}
			if isLowMask(bits) {
				return imod(x, bigT(pow2(uint(len(bits))))), true
			}
			acc := intT(0)
			for _, k := range bits {
				acc = add(acc, mul(bigT(pow2(k)), bitOf(x, k)))
			}
			return acc, true
		case token.OR:
			acc := x
			for _, k := range bits {
				acc = add(acc, mul(bigT(pow2(k)), sub(intT(1), bitOf(x, k))))
			}
			return acc, true
		case token.AND_NOT:
			acc := x
			for _, k := range bits {
				acc = sub(acc, mul(bigT(pow2(k)), bitOf(x, k)))
			}
			return acc, true
		case token.XOR:
			acc := x
			for _, k := range bits {
				// flip bit k
				acc = add(acc, mul(bigT(pow2(k)), sub(intT(1), mul(intT(2), bitOf(x, k)))))
			}
			return acc, true
		}
		return Term{}, false
	}
	if r, ok := try(a, b); ok {
		return r, true
	}
	if op != token.AND_NOT {
		if r, ok := try(b, a); ok {
			return r, true
		}
	}
	return Term{}, false
}

func (tr *Trans) binop(x *ssa.BinOp) {
	a, b := tr.val(x.X), tr.val(x.Y)
	t := x.X.Type()
	rt := x.Type()
	set := func(term Term) { tr.setVal(x, Val{T: rt, C: []Term{term}}) }
	// comparisons
	switch x.Op {
	case token.EQL, token.NEQ:
		r := tr.equalVals(a, b, t)
		if x.Op == token.NEQ {
			r = not(r)
		}
		set(r)
		return
	case token.LSS, token.LEQ, token.GTR, token.GEQ:
		if isString(t) {
			// lexicographic order is not modelled
			tr.e.note("%s: string ordering comparison abstracted", tr.label)
			set(tr.e.fresh("strcmp", SBool))
			return
		}
		op := map[token.Token]string{token.LSS: "<", token.LEQ: "<=", token.GTR: ">", token.GEQ: ">="}[x.Op]
		set(app(SBool, op, a.C[0], b.C[0]))
		return
	}
	if isString(rt) && x.Op == token.ADD {
		set(tr.strConcat(a, b))
		return
	}
	if isFloat(rt) {
		op := map[token.Token]string{token.ADD: "+", token.SUB: "-", token.MUL: "*", token.QUO: "/"}[x.Op]
		if op == "" {
			set(tr.e.fresh("fop", SReal))
			return
		}
		set(app(SReal, op, a.C[0], b.C[0]))
		return
	}
	if isBool(rt) {
		switch x.Op {
		case token.AND:
			set(and(a.C[0], b.C[0]))
		case token.OR:
			set(or(a.C[0], b.C[0]))
		default:
			set(tr.e.fresh("bop", SBool))
		}
		return
	}
	A, B := a.C[0], b.C[0]
	var r Term
	arith := false
	switch x.Op {
	case token.ADD:
		r, arith = add(A, B), true
	case token.SUB:
		r, arith = sub(A, B), true
	case token.MUL:
		r, arith = mul(A, B), true
	case token.QUO, token.REM:
		tr.safety("divzero", x, not(eq(B, intT(0))))
		var q Term
		if isUnsigned(rt) {
			q = idiv(A, B)
		} else {
			// truncated division
			absA := ite(ge(A, intT(0)), A, sub(intT(0), A))
			absB := ite(ge(B, intT(0)), B, sub(intT(0), B))
			qa := idiv(absA, absB)
			neg := not(eq(ge(A, intT(0)), ge(B, intT(0))))
			q = ite(neg, sub(intT(0), qa), qa)
		}
		q = tr.e.name("quo", q)
		if x.Op == token.QUO {
			r = q
		} else {
			r = sub(A, mul(B, q))
		}
		if !isUnsigned(rt) {
			r = wrapInt(r, rt)
		}
		set(r)
		return
	case token.AND, token.OR, token.XOR, token.AND_NOT:
		if rr, ok := tr.bitop(x.Op, A, B, rt); ok {
			set(rr)
			return
		}
		f := tr.e.declareFun("bit$"+x.Op.String(), []Sort{SInt, SInt}, SInt)
		rr := Term{fmt.Sprintf("(%s %s %s)", f, A.S, B.S), SInt}
		lo, hi := intRange(rt)
		tr.e.assume(tr.rc, inRange(rr, lo, hi))
		if x.Op == token.AND && isUnsigned(rt) {
			tr.e.assume(tr.rc, and(le(rr, A), le(rr, B)))
		}
		if x.Op == token.OR && isUnsigned(rt) {
			tr.e.assume(tr.rc, and(ge(rr, A), ge(rr, B)))
		}
		// sign facts that hold in two's complement whatever the operands are
		z := intT(0)
		switch x.Op {
		case token.OR:
			tr.e.assume(tr.rc, implies(and(ge(A, z), ge(B, z)), and(ge(rr, A), ge(rr, B), le(rr, add(A, B)))))
		case token.AND:
			tr.e.assume(tr.rc, implies(ge(A, z), and(ge(rr, z), le(rr, A))))
			tr.e.assume(tr.rc, implies(ge(B, z), and(ge(rr, z), le(rr, B))))
		case token.XOR:
			tr.e.assume(tr.rc, implies(and(ge(A, z), ge(B, z)), and(ge(rr, z), le(rr, add(A, B)))))
		}
		tr.e.note("%s: variable bit operation %s uninterpreted", tr.label, x.Op)
		set(rr)
		return
	case token.SHL:
		if bits, ok := constBits(B.S); ok {
			var k uint64
			for _, bb := range bits {
				k |= 1 << bb
			}
			if k < 64 {
				r = mul(A, bigT(pow2(uint(k))))
				r = wrapInt(r, rt)
				set(r)
				return
			}
			set(intT(0))
			return
		}
		f := tr.e.declareFun("shl", []Sort{SInt, SInt}, SInt)
		rr := Term{fmt.Sprintf("(%s %s %s)", f, A.S, B.S), SInt}
		lo, hi := intRange(rt)
		tr.e.assume(tr.rc, inRange(rr, lo, hi))
		tr.e.note("%s: variable shift uninterpreted", tr.label)
		set(rr)
		return
	case token.SHR:
		if bits, ok := constBits(B.S); ok {
			var k uint64
			for _, bb := range bits {
				k |= 1 << bb
			}
			if k < 64 {
				set(idiv(A, bigT(pow2(uint(k)))))
				return
			}
		}
		f := tr.e.declareFun("shr", []Sort{SInt, SInt}, SInt)
		rr := Term{fmt.Sprintf("(%s %s %s)", f, A.S, B.S), SInt}
		lo, hi := intRange(rt)
		tr.e.assume(tr.rc, inRange(rr, lo, hi))
		tr.e.note("%s: variable shift uninterpreted", tr.label)
		set(rr)
		return
	default:
		set(tr.e.fresh("binop", SInt))
		return
	}
	if arith {
		if isUnsigned(rt) {
			r = wrapInt(r, rt)
		} else {
			r = tr.signedResult(r, rt, x)
		}
	}
	set(r)
}

// equalVals is Go's == on two values of type t.
func (tr *Trans) equalVals(a, b Val, t types.Type) Term {
	if isString(t) {
		if b.Lit != nil {
			return tr.g.strEqLit(tr.e, a.C[0], *b.Lit)
		}
		if a.Lit != nil {
			return tr.g.strEqLit(tr.e, b.C[0], *a.Lit)
		}
		return eq(a.C[0], b.C[0])
	}
	if isSlice(t) {
		// only comparison with nil is legal
		if len(a.C) == 4 && len(b.C) == 4 {
			return eq(a.C[0], b.C[0])
		}
	}
	if a.Addr != nil || b.Addr != nil {
		// pointer comparisons on static addresses
		if a.Addr != nil && b.Addr == nil && len(b.C) == 1 {
			return tFalse // address of a real location is never nil
		}
		if b.Addr != nil && a.Addr == nil && len(a.C) == 1 {
			return tFalse
		}
		tr.e.note("%s: pointer comparison abstracted", tr.label)
		return tr.e.fresh("ptreq", SBool)
	}
	if len(a.C) != len(b.C) || len(a.C) == 0 {
		if len(a.C) == 0 && len(b.C) == 0 {
			return tTrue
		}
		return tr.e.fresh("cmp", SBool)
	}
	var cs []Term
	for i := range a.C {
		cs = append(cs, eq(a.C[i], b.C[i]))
	}
	return and(cs...)
}

func (tr *Trans) strConcat(a, b Val) Term {
	g := tr.g
	if a.Lit != nil && *a.Lit == "" {
		return b.C[0]
	}
	if b.Lit != nil && *b.Lit == "" {
		return a.C[0]
	}
	r := tr.e.fresh("strcat", SInt)
	la, lb := g.strLen(tr.e, a.C[0]), g.strLen(tr.e, b.C[0])
	tr.e.assume(tr.rc, eq(g.strLen(tr.e, r), add(la, lb)))
	// characters
	i := "(i Int)"
	at := func(s Term, idx string) string { return g.strAt(tr.e, s, Term{idx, SInt}).S }
	tr.e.assume(tr.rc, Term{fmt.Sprintf("(forall (%s) (! (=> (and (<= 0 i) (< i %s)) (= %s %s)) :pattern (%s)))", i, la.S, at(r, "i"), at(a.C[0], "i"), at(r, "i")), SBool})
	tr.e.assume(tr.rc, Term{fmt.Sprintf("(forall (%s) (! (=> (and (<= %s i) (< i (+ %s %s))) (= %s %s)) :pattern (%s)))", i, la.S, la.S, lb.S, at(r, "i"), at(b.C[0], "(- i "+la.S+")"), at(r, "i")), SBool})
	return r
}

func (tr *Trans) convert(x *ssa.Convert) {
	v := tr.val(x.X)
	from, to := x.X.Type(), x.Type()
	switch {
	case isInteger(from) && isInteger(to):
		lo, hi := intRange(to)
		flo, fhi := intRange(from)
		r := v.C[0]
		// widening conversions need no wrap
		if !(cmpDec(flo, lo) >= 0 && cmpDec(fhi, hi) <= 0) {
			r = wrapInt(r, to)
		}
		tr.setVal(x, Val{T: to, C: []Term{r}})
	case isInteger(from) && isFloat(to):
		tr.setVal(x, Val{T: to, C: []Term{app(SReal, "to_real", v.C[0])}})
	case isFloat(from) && isInteger(to):
		// truncation toward zero; out-of-range is implementation-defined: result assumed in range
		tt := app(SInt, "to_int", v.C[0])
		neg := app(SInt, "-", app(SInt, "to_int", app(SReal, "-", v.C[0])))
		tv := tr.e.name("f2i", ite(app(SBool, ">=", v.C[0], Term{"0.0", SReal}), tt, neg))
		lo, hi := intRange(to)
		// Out of range the conversion does not panic; Go leaves the result to the implementation. amd64 yields the
		// minimum ("integer indefinite"), arm64 saturates: the result is the minimum below the range and either extreme
		// above it (an assumption about the platform, listed in DESIGN.md). Nothing is assumed about the operand.
		r := tr.e.fresh("f2ir", SInt)
		loT, hiT := bigT(lo), bigT(hi)
		tr.e.assume(tr.rc, implies(inRange(tv, lo, hi), eq(r, tv)))
		tr.e.assume(tr.rc, implies(lt(tv, loT), eq(r, loT)))
		tr.e.assume(tr.rc, implies(gt(tv, hiT), or(eq(r, loT), eq(r, hiT))))
		tr.setVal(x, Val{T: to, C: []Term{r}})
	case isFloat(from) && isFloat(to):
		tr.vals[x] = Val{T: to, C: v.C}
	case isString(to) && isSlice(from):
		// string(bytes)
		r := tr.e.fresh("str", SInt)
		g := tr.g
		tr.e.assume(tr.rc, eq(g.strLen(tr.e, r), v.C[2]))
		et := under(from).(*types.Slice).Elem()
		ks := elemKeys(et)
		h := tr.st.get(tr.e, ks[0].key, ks[0].sort)
		arr := tr.e.name("arr", sel(h, v.C[0]))
		at := g.strAt(tr.e, r, Term{"i", SInt}).S
		tr.e.assume(tr.rc, Term{fmt.Sprintf("(forall ((i Int)) (! (=> (and (<= 0 i) (< i %s)) (= %s (select %s (+ %s i)))) :pattern (%s)))", v.C[2].S, at, arr.S, v.C[1].S, at), SBool})
		tr.vals[x] = Val{T: to, C: []Term{r}}
	case isSlice(to) && isString(from):
		// []byte(string)
		g := tr.g
		ref := tr.allocRef(tr.st)
		ln := g.strLen(tr.e, v.C[0])
		et := under(to).(*types.Slice).Elem()
		ks := elemKeys(et)
		h := tr.st.get(tr.e, ks[0].key, ks[0].sort)
		arr := tr.e.fresh("bytesof", ks[0].sort.elem())
		tr.e.assume(tr.rc, Term{fmt.Sprintf("(forall ((i Int)) (! (=> (and (<= 0 i) (< i %s)) (= (select %s i) %s)) :pattern ((select %s i))))", ln.S, arr.S, g.strAt(tr.e, v.C[0], Term{"i", SInt}).S, arr.S), SBool})
		tr.st.set(ks[0].key, tr.e.name("H", store(h, ref, arr)))
		cp := tr.e.fresh("cap", SInt)
		tr.e.assume(tr.rc, ge(cp, ln))
		tr.vals[x] = Val{T: to, C: []Term{ref, intT(0), ln, cp}}
	case isString(to) && isInteger(from):
		tr.vals[x] = tr.freshVal(to, "runestr", tr.st, tr.rc)
	case isPointer(to) || isPointer(from):
		tr.vals[x] = Val{T: to, C: v.C, Addr: v.Addr}
	default:
		tr.e.note("%s: conversion %s -> %s abstracted", tr.label, from, to)
		tr.vals[x] = tr.freshVal(to, "conv", tr.st, tr.rc)
	}
}

func cmpDec(a, b string) int {
	na, nb := a[0] == '-', b[0] == '-'
	if na != nb {
		if na {
			return -1
		}
		return 1
	}
	if na {
		return -cmpDec(a[1:], b[1:])
	}
	if len(a) != len(b) {
		if len(a) < len(b) {
			return -1
		}
		return 1
	}
	if a < b {
		return -1
	}
	if a > b {
		return 1
	}
	return 0
}

func (g *Gen) typeID(t types.Type) int {
	k := "T:" + t.String()
	id, ok := g.typeIDs[k]
	if !ok {
		id = len(g.typeIDs) + 1
		g.typeIDs[k] = id
	}
	return id
}

func (tr *Trans) dynType(v Term) Term {
	f := tr.e.declareFun("dyntype", []Sort{SInt}, SInt)
	return Term{fmt.Sprintf("(%s %s)", f, v.S), SInt}
}

func (tr *Trans) makeInterface(x *ssa.MakeInterface) {
	v := tr.val(x.X)
	if v.Addr != nil && v.Addr.Kind == AddrCell {
		// the address of a local cell is boxed (json.Unmarshal(b, &v), fmt.Sscan(&n), ...): whoever receives the interface
		// value may write the cell, so every later unknown effect also havocs it
		if tr.g.escaped == nil {
			tr.g.escaped = map[string]bool{}
		}
		for _, c := range comps(v.Addr.T) {
			tr.g.escaped[v.Addr.Key+c.Suffix] = true
		}
	}
	ct := x.X.Type()
	id := tr.g.typeID(ct)
	var r Term
	if len(v.C) == 1 && (v.C[0].Sort == SInt || v.C[0].Sort == SBool || v.C[0].Sort == SReal) && v.Addr == nil {
		vs := v.C[0].Sort
		f := tr.e.declareFun(fmt.Sprintf("box$%d", id), []Sort{vs}, SInt)
		uf := tr.e.declareFun(fmt.Sprintf("unbox$%d", id), []Sort{SInt}, vs)
		r = Term{fmt.Sprintf("(%s %s)", f, v.C[0].S), SInt}
		tr.e.assertRaw(eq(Term{fmt.Sprintf("(%s %s)", uf, r.S), vs}, v.C[0]))
	} else {
		r = tr.e.fresh("boxed", SInt)
	}
	tr.e.assertRaw(and(not(eq(r, intT(0))), eq(tr.dynType(r), intT(int64(id)))))
	tr.setVal(x, Val{T: x.Type(), C: []Term{r}})
}

func (tr *Trans) typeAssert(x *ssa.TypeAssert) {
	v := tr.val(x.X)
	at := x.AssertedType
	var ok Term
	var res Val
	if isInterface(at) {
		// interface-to-interface: succeeds iff non-nil and implements; abstract
		// whether the dynamic type implements the asserted interface: an uninterpreted predicate of the dynamic
		// type, with the facts the type checker knows for the concrete types named in the specs
		iid := tr.g.typeID(at)
		f := tr.e.declareFun(fmt.Sprintf("implements$%d", iid), []Sort{SInt}, SBool)
		okc := Term{fmt.Sprintf("(%s %s)", f, tr.dynType(v.C[0]).S), SBool}
		if !tr.g.frSeen[fmt.Sprintf("impl$%d", iid)] {
			tr.g.frSeen[fmt.Sprintf("impl$%d", iid)] = true
			if it, isI := under(at).(*types.Interface); isI {
				for _, tn := range sortedKeys(tr.g.specs.TypeLits) {
					if ct := tr.g.ld.lookupType(tn); ct != nil {
						fact := Term{fmt.Sprintf("(%s %d)", f, tr.g.typeID(ct)), SBool}
						if !types.Implements(ct, it) {
							fact = not(fact)
						}
						tr.e.assertRaw(fact)
					}
				}
			}
		}
		ok = and(not(eq(v.C[0], intT(0))), okc)
		res = Val{T: at, C: []Term{v.C[0]}}
	} else {
		id := tr.g.typeID(at)
		ok = and(not(eq(v.C[0], intT(0))), eq(tr.dynType(v.C[0]), intT(int64(id))))
		cs := comps(at)
		if len(cs) == 1 && (cs[0].Sort == SInt || cs[0].Sort == SBool || cs[0].Sort == SReal) {
			uf := tr.e.declareFun(fmt.Sprintf("unbox$%d", id), []Sort{SInt}, cs[0].Sort)
			res = Val{T: at, C: []Term{{fmt.Sprintf("(%s %s)", uf, v.C[0].S), cs[0].Sort}}}
			tr.assumeTyped(res, tr.st, tr.rc)
		} else {
			res = tr.freshVal(at, "unboxed", tr.st, tr.rc)
		}
	}
	if x.CommaOk {
		okn := tr.e.name("taok", ok)
		z := tr.zeroVal(at)
		out := Val{T: x.Type()}
		for i := range res.C {
			out.C = append(out.C, ite(okn, res.C[i], z.C[i]))
		}
		out.C = append(out.C, okn)
		tr.setVal(x, out)
		return
	}
	tr.safety("typeassert", x, ok)
	tr.e.assume(tr.rc, ok)
	tr.setVal(x, res)
}

func (tr *Trans) slice(x *ssa.Slice) {
	bv := tr.val(x.X)
	var lo, hi, mx Term
	if x.Low != nil {
		lo = tr.val(x.Low).C[0]
	} else {
		lo = intT(0)
	}
	switch u := under(x.X.Type()).(type) {
	case *types.Basic: // string
		ln := tr.g.strLen(tr.e, bv.C[0])
		if x.High != nil {
			hi = tr.val(x.High).C[0]
		} else {
			hi = ln
		}
		tr.safety("slice", x, and(le(intT(0), lo), le(lo, hi), le(hi, ln)))
		tr.setVal(x, Val{T: x.Type(), C: []Term{tr.substr(bv.C[0], lo, hi)}})
	case *types.Slice:
		if len(bv.C) != 4 {
			tr.vals[x] = tr.freshVal(x.Type(), "slice", tr.st, tr.rc)
			return
		}
		ref, off, ln, cp := bv.C[0], bv.C[1], bv.C[2], bv.C[3]
		if x.High != nil {
			hi = tr.val(x.High).C[0]
		} else {
			hi = ln
		}
		if x.Max != nil {
			mx = tr.val(x.Max).C[0]
		} else {
			mx = cp
		}
		tr.safety("slice", x, and(le(intT(0), lo), le(lo, hi), le(hi, mx), le(mx, cp)))
		tr.setVal(x, Val{T: x.Type(), C: []Term{ref, add(off, lo), sub(hi, lo), sub(mx, lo)}})
	case *types.Pointer: // pointer to array
		at := under(u.Elem()).(*types.Array)
		n := intT(at.Len())
		if x.High != nil {
			hi = tr.val(x.High).C[0]
		} else {
			hi = n
		}
		if x.Max != nil {
			mx = tr.val(x.Max).C[0]
		} else {
			mx = n
		}
		tr.safety("slice", x, and(le(intT(0), lo), le(lo, hi), le(hi, mx), le(mx, n)))
		if len(bv.C) != 1 {
			tr.vals[x] = tr.freshVal(x.Type(), "slice", tr.st, tr.rc)
			return
		}
		tr.setVal(x, Val{T: x.Type(), C: []Term{bv.C[0], lo, sub(hi, lo), sub(mx, lo)}})
	default:
		tr.vals[x] = tr.freshVal(x.Type(), "slice", tr.st, tr.rc)
	}
}

func (tr *Trans) substr(s, lo, hi Term) Term {
	g := tr.g
	if lo.S == "0" && hi.S == g.strLen(tr.e, s).S {
		return s
	}
	f := tr.e.declareFun("s$sub", []Sort{SInt, SInt, SInt}, SInt)
	r := Term{fmt.Sprintf("(%s %s %s %s)", f, s.S, lo.S, hi.S), SInt}
	r = tr.e.name("substr", r)
	tr.e.assume(tr.rc, eq(g.strLen(tr.e, r), sub(hi, lo)))
	at := g.strAt(tr.e, r, Term{"i", SInt}).S
	tr.e.assume(tr.rc, Term{fmt.Sprintf("(forall ((i Int)) (! (=> (and (<= 0 i) (< i (- %s %s))) (= %s %s)) :pattern (%s)))", hi.S, lo.S, at, g.strAt(tr.e, s, Term{"(+ i " + lo.S + ")", SInt}).S, at), SBool})
	return r
}

func (tr *Trans) makeSlice(x *ssa.MakeSlice) {
	ln := tr.val(x.Len).C[0]
	cp := tr.val(x.Cap).C[0]
	tr.safety("make", x, and(le(intT(0), ln), le(ln, cp)))
	if tr.g.opts.Safety && tr.g.dry == 0 {
		tr.allocBound(x, cp)
	}
	ref := tr.allocRef(tr.st)
	et := under(x.Type()).(*types.Slice).Elem()
	if !isObjType(et) {
		for _, ks := range elemKeys(et) {
			h := tr.st.get(tr.e, ks.key, ks.sort)
			tr.st.set(ks.key, tr.e.name("H", store(h, ref, zeroOfSort(ks.sort.elem()))))
		}
	}
	tr.setVal(x, Val{T: x.Type(), C: []Term{ref, intT(0), ln, cp}})
}

type mapKeySet struct {
	has     string
	hasSort Sort
	vals    []keySort
	length  string
	ksort   Sort
}

func mapKeys(mt *types.Map) *mapKeySet {
	kc := comps(mt.Key())
	if len(kc) != 1 {
		return nil
	}
	base := "map$" + typeKey(mt.Key()) + "$" + typeKey(mt.Elem())
	m := &mapKeySet{has: base + ".has", hasSort: arrSort(SInt, arrSort(kc[0].Sort, SBool)), length: base + ".len", ksort: kc[0].Sort}
	if _, isArr := under(mt.Elem()).(*types.Array); isArr {
		return m
	}
	// struct values are stored flattened, one value array per field component (map[int]registeredHandler)
	for _, c := range comps(mt.Elem()) {
		m.vals = append(m.vals, keySort{base + ".val" + c.Suffix, arrSort(SInt, arrSort(kc[0].Sort, c.Sort))})
	}
	return m
}

func (tr *Trans) mapUpdate(x *ssa.MapUpdate) {
	mv := tr.val(x.Map)
	mt := under(x.Map.Type()).(*types.Map)
	mk := mapKeys(mt)
	tr.safety("nilmap", x, not(eq(mv.C[0], intT(0))))
	if mk == nil {
		tr.e.note("%s: map with composite key not modelled", tr.label)
		return
	}
	k := tr.val(x.Key).C[0]
	v := tr.val(x.Value)
	r := mv.C[0]
	h := tr.st.get(tr.e, mk.has, mk.hasSort)
	had := sel(sel(h, r), k)
	hl := tr.st.get(tr.e, mk.length, arrSort(SInt, SInt))
	tr.st.set(mk.length, tr.e.name("H", store(hl, r, ite(had, sel(hl, r), add(sel(hl, r), intT(1))))))
	tr.st.set(mk.has, tr.e.name("H", store(h, r, store(sel(h, r), k, tTrue))))
	if len(mk.vals) == len(v.C) {
		for i, ks := range mk.vals {
			hv := tr.st.get(tr.e, ks.key, ks.sort)
			tr.st.set(ks.key, tr.e.name("H", store(hv, r, store(sel(hv, r), k, v.C[i]))))
		}
	}
}

func (tr *Trans) lookup(x *ssa.Lookup) {
	if _, isStr := under(x.X.Type()).(*types.Basic); isStr {
		sv := tr.val(x.X)
		idx := tr.val(x.Index).C[0]
		tr.safety("index", x, and(le(intT(0), idx), lt(idx, tr.g.strLen(tr.e, sv.C[0]))))
		v := Val{T: x.Type(), C: []Term{tr.g.strAt(tr.e, sv.C[0], idx)}}
		tr.e.assume(tr.rc, inRange(v.C[0], "0", "255"))
		tr.setVal(x, v)
		return
	}
	mv := tr.val(x.X)
	mt := under(x.X.Type()).(*types.Map)
	mk := mapKeys(mt)
	if mk == nil || len(mk.vals) == 0 {
		tr.e.note("%s: map lookup on unmodelled map type %s", tr.label, mt)
		tr.vals[x] = tr.freshVal(x.Type(), "lookup", tr.st, tr.rc)
		return
	}
	k := tr.val(x.Index).C[0]
	r := mv.C[0]
	h := tr.st.get(tr.e, mk.has, mk.hasSort)
	has := tr.e.name("has", and(not(eq(r, intT(0))), sel(sel(h, r), k)))
	z := tr.zeroVal(mt.Elem())
	out := Val{T: x.Type()}
	elem := Val{T: mt.Elem()}
	for _, ks := range mk.vals {
		hv := tr.st.get(tr.e, ks.key, ks.sort)
		elem.C = append(elem.C, sel(sel(hv, r), k))
	}
	tr.assumeTyped(elem, tr.st, tr.rc)
	for i := range elem.C {
		out.C = append(out.C, ite(has, elem.C[i], z.C[i]))
	}
	if x.CommaOk {
		out.C = append(out.C, has)
	}
	tr.setVal(x, out)
}

func (tr *Trans) next(x *ssa.Next) {
	it := tr.val(x.Iter)
	okc := tr.e.fresh("next.ok", SBool)
	tup := x.Type().(*types.Tuple)
	out := Val{T: x.Type(), C: []Term{okc}}
	kt, vt := tup.At(1).Type(), tup.At(2).Type()
	if x.IsString {
		k := tr.freshVal(kt, "next.k", tr.st, tr.rc)
		v := tr.freshVal(vt, "next.v", tr.st, tr.rc)
		if len(it.Bind) == 1 {
			s := it.Bind[0].C[0]
			tr.e.assume(tr.rc, implies(okc, and(le(intT(0), k.C[0]), lt(k.C[0], tr.g.strLen(tr.e, s)))))
		}
		out.C = append(out.C, k.C...)
		out.C = append(out.C, v.C...)
		tr.setVal(x, out)
		return
	}
	// map iteration
	var k, v Val
	if b, isB := kt.(*types.Basic); isB && b.Kind() == types.Invalid {
		k = Val{T: kt, C: []Term{intT(0)}}
	} else {
		k = tr.freshVal(kt, "next.k", tr.st, tr.rc)
	}
	vInvalid := false
	if b, isB := vt.(*types.Basic); isB && b.Kind() == types.Invalid {
		v = Val{T: vt, C: []Term{intT(0)}}
		vInvalid = true
	} else {
		v = tr.freshVal(vt, "next.v", tr.st, tr.rc)
	}
	if len(it.Bind) == 1 && len(it.Bind[0].C) == 1 {
		if mt, okm := under(it.Bind[0].T).(*types.Map); okm {
			if mk := mapKeys(mt); mk != nil && len(k.C) == 1 {
				if k.C[0].S == "0" || k.C[0].Sort != mk.ksort {
					// the key is not used by the program: it still exists
					k = Val{T: mt.Key(), C: []Term{tr.e.fresh("next.key", mk.ksort)}}
				}
				r := it.Bind[0].C[0]
				h := tr.st.get(tr.e, mk.has, mk.hasSort)
				tr.e.assume(tr.rc, implies(okc, sel(sel(h, r), k.C[0])))
				if it.Lit != nil {
					vs := arrSort(mk.ksort, SBool)
					vis := tr.st.get(tr.e, *it.Lit, vs)
					tr.e.assume(tr.rc, implies(okc, not(sel(vis, k.C[0]))))
					tr.st.set(*it.Lit, tr.e.name("visited", ite(okc, store(vis, k.C[0], tTrue), vis)))
					if !tr.mapUpdatedInFunc(mt) {
						// iteration is over: every key still in the map has been produced (no insertions during the loop)
						tr.e.assume(tr.rc, implies(not(okc), Term{fmt.Sprintf("(forall ((x!q %s)) (! (=> (select (select %s %s) x!q) (select %s x!q)) :pattern ((select (select %s %s) x!q))))",
							mk.ksort, h.S, r.S, vis.S, h.S, r.S), SBool}))
					}
				}
				if !vInvalid && len(mk.vals) == len(v.C) {
					for i, ks := range mk.vals {
						hv := tr.st.get(tr.e, ks.key, ks.sort)
						tr.e.assume(tr.rc, implies(okc, eq(v.C[i], sel(sel(hv, r), k.C[0]))))
					}
				}
			}
		}
	}
	out.C = append(out.C, k.C...)
	out.C = append(out.C, v.C...)
	tr.setVal(x, out)
}

// mapUpdatedInFunc reports whether the function inserts into a map of the given type (then range-exit facts are not emitted).
func (tr *Trans) mapUpdatedInFunc(mt *types.Map) bool {
	for _, b := range tr.fn.Blocks {
		for _, in := range b.Instrs {
			if mu, ok := in.(*ssa.MapUpdate); ok {
				if types.Identical(under(mu.Map.Type()), mt) {
					return true
				}
			}
		}
	}
	return false
}

// zeroLocks clears the ghost lock state of the mutexes embedded in a freshly allocated object.
func (tr *Trans) zeroLocks(t types.Type, ref Term) {
	st, ok := under(t).(*types.Struct)
	if !ok {
		return
	}
	switch typeKey(t) {
	case "sync.Mutex":
		h := tr.st.get(tr.e, "lock$sync.Mutex", arrSort(SInt, SInt))
		tr.st.set("lock$sync.Mutex", tr.e.name("H", store(h, ref, intT(0))))
		return
	case "sync.RWMutex":
		for _, k := range []string{"lock$sync.RWMutex.w", "lock$sync.RWMutex.r"} {
			h := tr.st.get(tr.e, k, arrSort(SInt, SInt))
			tr.st.set(k, tr.e.name("H", store(h, ref, intT(0))))
		}
		return
	}
	for i := 0; i < st.NumFields(); i++ {
		f := st.Field(i)
		if _, isStruct := under(f.Type()).(*types.Struct); isStruct {
			tr.zeroLocks(f.Type(), tr.g.fr(tr.e, t, f.Name(), ref))
		}
	}
}
