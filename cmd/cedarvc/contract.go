package main

import (
	"bufio"
	"fmt"
	"go/ast"
	"go/parser"
	"os"
	"path/filepath"
	"regexp"
	"strconv"
	"strings"
)

type Clause struct {
	Label  string
	Src    string
	AST    ast.Expr
	Props  []string
	Where  string // file:line
	Replay string // replay driver name
	Region string // known-finding region handled elsewhere
}

type LoopSpec struct {
	Invs      []*Clause
	Decreases *Clause
}

type AssertSpec struct {
	When    string // before | after
	Callee  string // suffix of callee name
	Ordinal int    // 1-based among calls matching Callee in source order; 0 = all
	Clause  *Clause
}

type Contract struct {
	Key        string
	Pkg        string // import path used to resolve identifiers
	Params     []string
	Results    []string
	Props      []string
	FrameProps []string
	Requires   []*Clause
	Ensures    []*Clause
	Assigns    []ast.Expr
	AssignsSrc []string
	HasAssigns bool
	Loops      map[int]*LoopSpec
	Asserts    []*AssertSpec
	Inline     bool
	Trusted    bool // assumed, not verified
	Pure       bool // no heap effect, result fresh
	NonNil     bool // result non-nil
	Lets       []letDef
	Where      string
	Overflow   bool            // check signed overflow instead of assuming none
	NoPanic    bool            // explicit request for safety sweep only
	External   bool            // declared in /verif/specs (outside /repo)
	Allocs     map[int]*Clause // per make-site allocation bounds (bytes), by source ordinal
}

type letDef struct {
	Name string
	AST  ast.Expr
}

type Pred struct {
	Name   string
	Params []string
	Body   ast.Expr
	Pkg    string
	Src    string
	Opaque bool // `view`: kept as a function symbol with a definitional axiom (good quantifier triggers)
}

type UFunc struct {
	Name string
	Args []Sort
	Res  Sort
}

type GhostVar struct {
	Name string
	Type string // int | bool | bytes | string
}

type GuardedBy struct {
	Field string // pkg.Type.field
	Mutex string // pkg.Type.mufield
	Pkg   string
	RW    bool
}

type Specs struct {
	Contracts      map[string]*Contract
	Preds          map[string]*Pred
	UFuncs         map[string]*UFunc
	Ghosts         map[string]*GhostVar
	Guarded        []*GuardedBy
	Consts         map[string]ast.Expr
	Axioms         []*Clause
	Files          []string
	Lemmas         []*Lemma
	Tokens         map[string]int  // scan of assume/trusted tokens
	TypeLits       map[string]bool // concrete type names used in typeis()/unbox()
	Refinements    []*Refinement
	Immutable      map[string]bool   // package-level variables treated as non-nil constants (sentinel errors)
	AssignSets     map[string]string // named lists of assigns targets
	AssignSetParam map[string]string // formal parameter of a parameterised assignset
}

type Refinement struct {
	Iface       string
	Impl        string
	Coupling    ast.Expr
	Assuming    ast.Expr // extra hypothesis of the refinement (trusted; listed in the evidence)
	AssumingSrc string
	Hidden      []ast.Expr // implementation-private locations exempt from the interface frame (encapsulation assumption)
	HiddenSrc   string
	Where       string
	Pkg         string
	Props       []string
}

type Lemma struct {
	Name  string
	Props []string
	Vars  []lemmaVar
	Hyps  []*Clause
	Concl *Clause
	Pkg   string
	Where string
}
type lemmaVar struct{ Name, Type string }

func newSpecs() *Specs {
	return &Specs{Contracts: map[string]*Contract{}, Preds: map[string]*Pred{}, UFuncs: map[string]*UFunc{},
		Ghosts: map[string]*GhostVar{}, Consts: map[string]ast.Expr{}, Tokens: map[string]int{}, TypeLits: map[string]bool{}, Immutable: map[string]bool{}, AssignSets: map[string]string{}, AssignSetParam: map[string]string{}}
}

var kwRe = regexp.MustCompile(`^(pkg|func|frameprops|props|alloc|refine|immutable|assignset|requires|ensures|assigns|loop|assert|inline|trusted|pure|nonnil|let|pred|view|ghost|guarded_by|ufunc|const|overflow|lemma|var|hyp|concl|axiom|end|external)\b`)

// rewriteSpec turns the spec surface syntax into a Go expression:
//
//	a ==> b            ->  __imp(a, b)
//	forall i :: body   ->  __forall(i, body)
//	exists i :: body   ->  __exists(i, body)
//	c ? a : b          is not supported; use ite(c,a,b)
func rewriteSpec(s string) string {
	s = strings.TrimSpace(s)
	// quantifier at the start of this group
	for _, q := range []string{"forall", "exists"} {
		if strings.HasPrefix(s, q+" ") {
			rest := s[len(q)+1:]
			if i := strings.Index(rest, "::"); i >= 0 {
				vars := strings.TrimSpace(rest[:i])
				body := rewriteSpec(rest[i+2:])
				out := body
				vs := strings.Split(vars, ",")
				for j := len(vs) - 1; j >= 0; j-- {
					out = fmt.Sprintf("__%s(%s, %s)", q, strings.TrimSpace(vs[j]), out)
				}
				return out
			}
		}
	}
	// first top-level "==>" and first top-level quantifier keyword (after && or ||)
	p, q := topIndex(s, "==>"), -1
	for _, kw := range []string{"forall ", "exists "} {
		if i := topIndex(s, kw); i > 0 && (q < 0 || i < q) {
			prev := strings.TrimSpace(s[:i])
			if strings.HasSuffix(prev, "&&") || strings.HasSuffix(prev, "||") {
				q = i
			}
		}
	}
	if q > 0 && (p < 0 || q < p) {
		// the quantifier swallows the rest of the group
		return rewriteGroups(s[:q]) + rewriteSpec(s[q:])
	}
	if p < 0 {
		return rewriteGroups(s)
	}
	left := rewriteGroups(s[:p])
	right := rewriteSpec(s[p+3:])
	return "__imp(" + left + ", " + right + ")"
}

// topIndex returns the index of the first occurrence of sep outside parentheses and strings, or -1.
func topIndex(s, sep string) int {
	depth := 0
	inStr := byte(0)
	for i := 0; i < len(s); i++ {
		c := s[i]
		if inStr != 0 {
			if c == '\\' {
				i++
			} else if c == inStr {
				inStr = 0
			}
			continue
		}
		switch c {
		case '"', '\'', '`':
			inStr = c
		case '(', '[', '{':
			depth++
		case ')', ']', '}':
			depth--
		}
		if depth == 0 && strings.HasPrefix(s[i:], sep) {
			if sep[0] >= 'a' && sep[0] <= 'z' && i > 0 && (s[i-1] >= 'a' && s[i-1] <= 'z' || s[i-1] >= 'A' && s[i-1] <= 'Z' || s[i-1] == '_' || s[i-1] >= '0' && s[i-1] <= '9') {
				continue
			}
			return i
		}
	}
	return -1
}

func splitTop(s, sep string) []string {
	var parts []string
	depth := 0
	last := 0
	inStr := byte(0)
	for i := 0; i < len(s); i++ {
		c := s[i]
		if inStr != 0 {
			if c == '\\' {
				i++
			} else if c == inStr {
				inStr = 0
			}
			continue
		}
		switch c {
		case '"', '\'', '`':
			inStr = c
		case '(', '[', '{':
			depth++
		case ')', ']', '}':
			depth--
		}
		if depth == 0 && strings.HasPrefix(s[i:], sep) {
			parts = append(parts, s[last:i])
			last = i + len(sep)
			i += len(sep) - 1
		}
	}
	parts = append(parts, s[last:])
	return parts
}

// rewriteGroups applies rewriteSpec inside every parenthesised group.
func rewriteGroups(s string) string {
	var b strings.Builder
	inStr := byte(0)
	for i := 0; i < len(s); i++ {
		c := s[i]
		if inStr != 0 {
			b.WriteByte(c)
			if c == '\\' && i+1 < len(s) {
				i++
				b.WriteByte(s[i])
			} else if c == inStr {
				inStr = 0
			}
			continue
		}
		if c == '"' || c == '\'' || c == '`' {
			inStr = c
			b.WriteByte(c)
			continue
		}
		if c == '(' {
			// find matching
			depth := 0
			j := i
			in2 := byte(0)
			for ; j < len(s); j++ {
				d := s[j]
				if in2 != 0 {
					if d == '\\' {
						j++
					} else if d == in2 {
						in2 = 0
					}
					continue
				}
				if d == '"' || d == '\'' || d == '`' {
					in2 = d
				} else if d == '(' {
					depth++
				} else if d == ')' {
					depth--
					if depth == 0 {
						break
					}
				}
			}
			if j >= len(s) {
				b.WriteString(s[i:])
				return b.String()
			}
			inner := s[i+1 : j]
			// argument lists: rewrite each comma-separated argument
			args := splitTop(inner, ",")
			for k := range args {
				args[k] = rewriteSpec(args[k])
			}
			b.WriteString("(" + strings.Join(args, ", ") + ")")
			i = j
			continue
		}
		b.WriteByte(c)
	}
	return b.String()
}

func parseSpecExpr(src string) (ast.Expr, error) {
	rw := rewriteSpec(src)
	e, err := parser.ParseExpr(rw)
	if err != nil {
		return nil, fmt.Errorf("spec expression %q (rewritten %q): %v", src, rw, err)
	}
	return e, nil
}

func parseClause(rest, where string, props []string) (*Clause, error) {
	// [label:] expr   ; optional trailing  @replay(name)
	c := &Clause{Where: where, Props: props}
	rest = strings.TrimSpace(rest)
	if m := regexp.MustCompile(`\s@replay\(([A-Za-z0-9_.-]+)\)\s*$`).FindStringSubmatchIndex(rest); m != nil {
		c.Replay = rest[m[2]:m[3]]
		rest = strings.TrimSpace(rest[:m[0]])
	}
	if m := regexp.MustCompile(`^\[((?:C\d+[ ,]*)+)\]\s*`).FindStringSubmatch(rest); m != nil {
		c.Props = strings.FieldsFunc(m[1], func(r rune) bool { return r == ' ' || r == ',' })
		rest = rest[len(m[0]):]
	}
	if m := regexp.MustCompile(`^([A-Za-z_][A-Za-z0-9_.]*):\s`).FindStringSubmatch(rest); m != nil {
		c.Label = m[1]
		rest = rest[len(m[0]):]
	}
	if m := regexp.MustCompile(`^\[((?:C\d+[ ,]*)+)\]\s*`).FindStringSubmatch(rest); m != nil {
		c.Props = strings.FieldsFunc(m[1], func(r rune) bool { return r == ' ' || r == ',' })
		rest = rest[len(m[0]):]
	}
	c.Src = strings.TrimSpace(rest)
	e, err := parseSpecExpr(c.Src)
	if err != nil {
		return nil, fmt.Errorf("%s: %v", where, err)
	}
	c.AST = e
	return c, nil
}

func expandFuncKey(name, pkg string) string {
	if pkg == "" || strings.Contains(name, "/") {
		return name
	}
	// (*T).m  |  (T).m  |  f  |  f$1  |  Iface.m (interface method, written "iface T.m")
	if strings.HasPrefix(name, "(*") {
		i := strings.Index(name, ")")
		t := name[2:i]
		if strings.Contains(t, ".") {
			return name
		}
		return "(*" + pkg + "." + t + ")" + name[i+1:]
	}
	if strings.HasPrefix(name, "(") {
		i := strings.Index(name, ")")
		t := name[1:i]
		if strings.Contains(t, ".") {
			return name
		}
		return "(" + pkg + "." + t + ")" + name[i+1:]
	}
	if strings.Contains(name, ".") {
		// qualified already (fmt.Errorf) or Type.method for interface in this package
		first := name[:strings.Index(name, ".")]
		if first != "" && first[0] >= 'A' && first[0] <= 'Z' {
			return pkg + "." + name
		}
		return name
	}
	return pkg + "." + name
}

var funcHdrRe = regexp.MustCompile(`^func\s+(\S+?)(?:\s*\(([^)]*)\))?(?:\s*\(([^)]*)\))?\s*$`)

// loadSpecFile parses one contract/spec file. prefix is "//@" for Go comment files or "" for .spec files.
func (sp *Specs) loadSpecFile(path string, external bool) error {
	f, err := os.Open(path)
	if err != nil {
		return err
	}
	defer f.Close()
	sp.Files = append(sp.Files, path)
	isGo := strings.HasSuffix(path, ".go")
	sc := bufio.NewScanner(f)
	sc.Buffer(make([]byte, 1<<20), 1<<20)
	type rawLine struct {
		text string
		n    int
	}
	var lines []rawLine
	n := 0
	for sc.Scan() {
		n++
		line := sc.Text()
		if isGo {
			t := strings.TrimSpace(line)
			if !strings.HasPrefix(t, "//@") {
				continue
			}
			line = strings.TrimPrefix(t, "//@")
		}
		if i := strings.Index(line, " ## "); i >= 0 {
			line = line[:i]
		}
		t := strings.TrimSpace(line)
		if t == "" || strings.HasPrefix(t, "#") {
			continue
		}
		for _, m := range regexp.MustCompile(`(?:typeis|unbox)\([^,]+,\s*"([^"]+)"\)`).FindAllStringSubmatch(t, -1) {
			sp.TypeLits[m[1]] = true
		}
		for _, tok := range []string{"assume", "admit", "trusted", "external_body", "axiom"} {
			if regexp.MustCompile(`(^|\W)` + tok + `(\W|$)`).MatchString(t) {
				sp.Tokens[tok]++
			}
		}
		if !kwRe.MatchString(t) && len(lines) > 0 {
			lines[len(lines)-1].text += " " + t
			continue
		}
		lines = append(lines, rawLine{t, n})
	}
	pkg := ""
	var cur *Contract
	var curLemma *Lemma
	for _, rl := range lines {
		where := fmt.Sprintf("%s:%d", filepath.Base(path), rl.n)
		t := rl.text
		kw := kwRe.FindString(t)
		rest := strings.TrimSpace(t[len(kw):])
		switch kw {
		case "pkg":
			pkg = rest
			cur = nil
		case "func":
			m := funcHdrRe.FindStringSubmatch(t)
			if m == nil {
				return fmt.Errorf("%s: bad func header %q", where, t)
			}
			key := expandFuncKey(m[1], pkg)
			c := &Contract{Key: key, Pkg: pkg, Loops: map[int]*LoopSpec{}, Where: where, External: external}
			if strings.TrimSpace(m[2]) != "" || strings.Contains(t, "()") {
				for _, p := range strings.Split(m[2], ",") {
					if p = strings.TrimSpace(p); p != "" {
						c.Params = append(c.Params, p)
					}
				}
			}
			for _, p := range strings.Split(m[3], ",") {
				if p = strings.TrimSpace(p); p != "" {
					c.Results = append(c.Results, p)
				}
			}
			if old, dup := sp.Contracts[key]; dup {
				return fmt.Errorf("%s: duplicate contract for %s (first at %s)", where, key, old.Where)
			}
			sp.Contracts[key] = c
			cur = c
			curLemma = nil
		case "frameprops":
			// extra properties the frame (assigns) obligations of this function count for
			if cur != nil {
				cur.FrameProps = strings.Fields(rest)
			}
		case "props":
			ps := strings.Fields(rest)
			if curLemma != nil {
				curLemma.Props = ps
			} else if cur != nil {
				cur.Props = ps
			}
		case "requires", "ensures":
			if cur == nil {
				return fmt.Errorf("%s: %s outside func", where, kw)
			}
			cl, err := parseClause(rest, where, cur.Props)
			if err != nil {
				return err
			}
			if cl.Label == "" {
				cl.Label = fmt.Sprintf("%s%d", kw[:3], len(cur.Requires)+len(cur.Ensures)+1)
			}
			if kw == "requires" {
				cur.Requires = append(cur.Requires, cl)
			} else {
				cur.Ensures = append(cur.Ensures, cl)
			}
		case "assigns":
			if cur == nil {
				return fmt.Errorf("%s: assigns outside func", where)
			}
			cur.HasAssigns = true
			if rest == "" || rest == "nothing" {
				break
			}
			items := splitTop(rest, ",")
			for k := 0; k < len(items); k++ {
				a := strings.TrimSpace(items[k])
				if a == "" {
					continue
				}
				if strings.HasPrefix(a, "@") {
					// @name or @name(arg): named (optionally one-parameter) list of targets
					name, arg := a[1:], ""
					if i := strings.Index(name, "("); i > 0 && strings.HasSuffix(name, ")") {
						name, arg = name[:i], name[i+1:len(name)-1]
					}
					set, ok := sp.AssignSets[name]
					if !ok {
						return fmt.Errorf("%s: unknown assignset %s", where, a)
					}
					if p := sp.AssignSetParam[name]; p != "" {
						set = regexp.MustCompile(`\b`+regexp.QuoteMeta(p)+`\b`).ReplaceAllString(set, arg)
					}
					items = append(items, splitTop(set, ",")...)
					continue
				}
				if a == "*" {
					a = "__all()"
				}
				e, err := parseSpecExpr(a)
				if err != nil {
					return fmt.Errorf("%s: %v", where, err)
				}
				cur.Assigns = append(cur.Assigns, e)
				cur.AssignsSrc = append(cur.AssignsSrc, a)
			}
		case "loop":
			// loop <n> invariant [label:] expr | loop <n> decreases expr
			if cur == nil {
				return fmt.Errorf("%s: loop outside func", where)
			}
			fs := strings.SplitN(rest, " ", 3)
			if len(fs) < 3 {
				return fmt.Errorf("%s: bad loop clause", where)
			}
			idx, err := strconv.Atoi(fs[0])
			if err != nil {
				return fmt.Errorf("%s: bad loop ordinal", where)
			}
			ls := cur.Loops[idx]
			if ls == nil {
				ls = &LoopSpec{}
				cur.Loops[idx] = ls
			}
			cl, err := parseClause(fs[2], where, cur.Props)
			if err != nil {
				return err
			}
			switch fs[1] {
			case "invariant":
				if cl.Label == "" {
					cl.Label = fmt.Sprintf("inv%d", len(ls.Invs)+1)
				}
				ls.Invs = append(ls.Invs, cl)
			case "decreases":
				cl.Label = "decreases"
				ls.Decreases = cl
			default:
				return fmt.Errorf("%s: bad loop clause kind %q", where, fs[1])
			}
		case "assert":
			// assert before|after call <callee> [#n] [label:] expr
			if cur == nil {
				return fmt.Errorf("%s: assert outside func", where)
			}
			m := regexp.MustCompile(`^(before|after)\s+call\s+(\S+)(?:\s+#(\d+))?\s+(.*)$`).FindStringSubmatch(rest)
			if m == nil {
				return fmt.Errorf("%s: bad assert clause", where)
			}
			as := &AssertSpec{When: m[1], Callee: m[2]}
			if m[3] != "" {
				as.Ordinal, _ = strconv.Atoi(m[3])
			}
			cl, err := parseClause(m[4], where, cur.Props)
			if err != nil {
				return err
			}
			if cl.Label == "" {
				cl.Label = fmt.Sprintf("assert%d", len(cur.Asserts)+1)
			}
			as.Clause = cl
			cur.Asserts = append(cur.Asserts, as)
		case "alloc":
			// alloc <n> <expr>: the n-th make() in this function allocates at most <expr> bytes
			fs := strings.SplitN(rest, " ", 2)
			idx, err := strconv.Atoi(fs[0])
			if err != nil || len(fs) < 2 || cur == nil {
				return fmt.Errorf("%s: bad alloc clause", where)
			}
			cl, err := parseClause(fs[1], where, cur.Props)
			if err != nil {
				return err
			}
			if cur.Allocs == nil {
				cur.Allocs = map[int]*Clause{}
			}
			cur.Allocs[idx] = cl
		case "refine":
			// refine <iface method key> by <impl func key> [coupling <pred>(recv)]
			hidden := ""
			if i := strings.Index(rest, " hidden "); i >= 0 {
				hidden = rest[i+len(" hidden "):]
				rest = rest[:i]
			}
			assuming := ""
			if i := strings.Index(rest, " assuming "); i >= 0 {
				assuming = rest[i+len(" assuming "):]
				rest = rest[:i]
			}
			m := regexp.MustCompile(`^(\S+)\s+by\s+(\S+)(?:\s+coupling\s+(.*))?$`).FindStringSubmatch(rest)
			if m == nil {
				return fmt.Errorf("%s: bad refine clause", where)
			}
			rf := &Refinement{Iface: expandFuncKey(m[1], pkg), Impl: m[2], Where: where, Pkg: pkg}
			if m[3] != "" {
				e, err := parseSpecExpr(m[3])
				if err != nil {
					return fmt.Errorf("%s: %v", where, err)
				}
				rf.Coupling = e
			}
			if assuming != "" {
				e, err := parseSpecExpr(assuming)
				if err != nil {
					return fmt.Errorf("%s: %v", where, err)
				}
				rf.Assuming = e
				rf.AssumingSrc = assuming
				sp.Tokens["assuming"]++
			}
			if hidden != "" {
				for _, h := range splitTop(hidden, ",") {
					e, err := parseSpecExpr(strings.TrimSpace(h))
					if err != nil {
						return fmt.Errorf("%s: %v", where, err)
					}
					rf.Hidden = append(rf.Hidden, e)
				}
				rf.HiddenSrc = hidden
				sp.Tokens["hidden"]++
			}
			sp.Refinements = append(sp.Refinements, rf)
		case "assignset":
			i := strings.Index(rest, "=")
			if i < 0 {
				return fmt.Errorf("%s: bad assignset", where)
			}
			name := strings.TrimSpace(rest[:i])
			if j := strings.Index(name, "("); j > 0 && strings.HasSuffix(name, ")") {
				sp.AssignSetParam[name[:j]] = strings.TrimSpace(name[j+1 : len(name)-1])
				name = name[:j]
			}
			sp.AssignSets[name] = strings.TrimSpace(rest[i+1:])
		case "immutable":
			for _, n := range strings.Fields(rest) {
				sp.Immutable[n] = true
			}
		case "inline":
			cur.Inline = true
		case "trusted":
			cur.Trusted = true
		case "external":
			cur.External = true
		case "pure":
			cur.Pure = true
			cur.HasAssigns = true
		case "nonnil":
			cur.NonNil = true
		case "overflow":
			cur.Overflow = true
		case "let":
			i := strings.Index(rest, "=")
			if i < 0 {
				return fmt.Errorf("%s: bad let", where)
			}
			e, err := parseSpecExpr(rest[i+1:])
			if err != nil {
				return fmt.Errorf("%s: %v", where, err)
			}
			if cur != nil {
				cur.Lets = append(cur.Lets, letDef{strings.TrimSpace(rest[:i]), e})
			}
		case "const":
			i := strings.Index(rest, "=")
			if i < 0 {
				return fmt.Errorf("%s: bad const", where)
			}
			e, err := parseSpecExpr(rest[i+1:])
			if err != nil {
				return fmt.Errorf("%s: %v", where, err)
			}
			sp.Consts[strings.TrimSpace(rest[:i])] = e
		case "pred", "view":
			// pred name(a, b) = expr
			m := regexp.MustCompile(`^([A-Za-z_][A-Za-z0-9_]*)\s*\(([^)]*)\)\s*=\s*(.*)$`).FindStringSubmatch(rest)
			if m == nil {
				return fmt.Errorf("%s: bad pred", where)
			}
			e, err := parseSpecExpr(m[3])
			if err != nil {
				return fmt.Errorf("%s: %v", where, err)
			}
			p := &Pred{Name: m[1], Body: e, Pkg: pkg, Src: m[3], Opaque: kw == "view"}
			for _, a := range strings.Split(m[2], ",") {
				if a = strings.TrimSpace(a); a != "" {
					p.Params = append(p.Params, strings.Fields(a)[0])
				}
			}
			sp.Preds[p.Name] = p
		case "ufunc":
			// ufunc name(Int, Int) Int
			m := regexp.MustCompile(`^([A-Za-z_][A-Za-z0-9_]*)\s*\(([^)]*)\)\s*(\S+)$`).FindStringSubmatch(rest)
			if m == nil {
				return fmt.Errorf("%s: bad ufunc", where)
			}
			u := &UFunc{Name: m[1], Res: specSort(m[3])}
			for _, a := range strings.Split(m[2], ",") {
				if a = strings.TrimSpace(a); a != "" {
					u.Args = append(u.Args, specSort(a))
				}
			}
			sp.UFuncs[u.Name] = u
		case "ghost":
			fs := strings.Fields(rest)
			if len(fs) == 3 && fs[0] == "var" {
				sp.Ghosts[fs[1]] = &GhostVar{fs[1], fs[2]}
			} else {
				return fmt.Errorf("%s: bad ghost decl", where)
			}
		case "guarded_by":
			fs := strings.Fields(rest)
			if len(fs) < 2 {
				return fmt.Errorf("%s: bad guarded_by", where)
			}
			sp.Guarded = append(sp.Guarded, &GuardedBy{Field: fs[0], Mutex: fs[1], Pkg: pkg, RW: len(fs) > 2 && fs[2] == "rw"})
		case "lemma":
			curLemma = &Lemma{Name: strings.Fields(rest)[0], Pkg: pkg, Where: where}
			sp.Lemmas = append(sp.Lemmas, curLemma)
			cur = nil
		case "var":
			if curLemma == nil {
				return fmt.Errorf("%s: var outside lemma", where)
			}
			fs := strings.Fields(rest)
			for i := 0; i+1 < len(fs); i += 2 {
				curLemma.Vars = append(curLemma.Vars, lemmaVar{fs[i], strings.TrimSuffix(fs[i+1], ",")})
			}
		case "hyp", "concl":
			if curLemma == nil {
				return fmt.Errorf("%s: %s outside lemma", where, kw)
			}
			cl, err := parseClause(rest, where, curLemma.Props)
			if err != nil {
				return err
			}
			if kw == "hyp" {
				curLemma.Hyps = append(curLemma.Hyps, cl)
			} else {
				curLemma.Concl = cl
			}
		case "axiom":
			cl, err := parseClause(rest, where, nil)
			if err != nil {
				return err
			}
			sp.Axioms = append(sp.Axioms, cl)
		case "end":
			cur = nil
			curLemma = nil
		}
	}
	return nil
}

func specSort(s string) Sort {
	switch s {
	case "int", "Int", "string", "ref":
		return SInt
	case "bool", "Bool":
		return SBool
	case "bytes", "Bytes":
		return arrSort(SInt, SInt)
	case "real", "Real":
		return SReal
	}
	return Sort(s)
}
