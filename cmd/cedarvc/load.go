package main

import (
	"fmt"
	"go/token"
	"go/types"
	"os"
	"path/filepath"
	"sort"
	"strings"

	"golang.org/x/tools/go/packages"
	"golang.org/x/tools/go/ssa"
	"golang.org/x/tools/go/ssa/ssautil"
)

const repoModule = "github.com/bbockelm/cedar"

type Loader struct {
	fset      *token.FileSet
	prog      *ssa.Program
	pkgs      []*packages.Package
	ssaPkgs   map[string]*ssa.Package
	pkgByName map[string]*types.Package
	pkgByPath map[string]*types.Package
	funcs     map[string]*ssa.Function // by String()
	repoDir   string
	loadSecs  float64
}

func loadRepo(repoDir string, patterns []string) (*Loader, error) {
	cfg := &packages.Config{Mode: packages.LoadAllSyntax, Dir: repoDir, Env: goEnv()}
	pkgs, err := packages.Load(cfg, patterns...)
	if err != nil {
		return nil, err
	}
	var errs []string
	packages.Visit(pkgs, nil, func(p *packages.Package) {
		if strings.HasPrefix(p.PkgPath, repoModule) {
			for _, e := range p.Errors {
				errs = append(errs, e.Error())
			}
		}
	})
	if len(errs) > 0 {
		return nil, fmt.Errorf("package errors: %s", strings.Join(errs, "; "))
	}
	prog, spkgs := ssautil.AllPackages(pkgs, ssa.InstantiateGenerics)
	for _, sp := range spkgs {
		// debug references (source names of locals, for loop invariants) in the repository's own packages only
		if sp != nil && strings.HasPrefix(sp.Pkg.Path(), repoModule) {
			sp.SetDebugMode(true)
		}
	}
	prog.Build()
	ld := &Loader{prog: prog, pkgs: pkgs, ssaPkgs: map[string]*ssa.Package{}, pkgByName: map[string]*types.Package{},
		pkgByPath: map[string]*types.Package{}, funcs: map[string]*ssa.Function{}, repoDir: repoDir}
	if len(pkgs) > 0 {
		ld.fset = pkgs[0].Fset
	}
	_ = spkgs
	for _, p := range prog.AllPackages() {
		ld.ssaPkgs[p.Pkg.Path()] = p
		ld.pkgByPath[p.Pkg.Path()] = p.Pkg
		if old, ok := ld.pkgByName[p.Pkg.Name()]; !ok || strings.HasPrefix(p.Pkg.Path(), repoModule) && !strings.HasPrefix(old.Path(), repoModule) {
			ld.pkgByName[p.Pkg.Name()] = p.Pkg
		}
	}
	for fn := range ssautil.AllFunctions(prog) {
		ld.funcs[fn.String()] = fn
	}
	return ld, nil
}

func (ld *Loader) lookupFunc(key string) *ssa.Function {
	return ld.funcs[key]
}

// lookupType resolves "pkg.T" or "*pkg.T" (pkg by name or path).
func (ld *Loader) lookupType(name string) types.Type {
	ptr := strings.HasPrefix(name, "*")
	name = strings.TrimPrefix(name, "*")
	i := strings.LastIndex(name, ".")
	if i < 0 {
		for _, b := range types.Typ {
			if b.Name() == name {
				if ptr {
					return types.NewPointer(b)
				}
				return b
			}
		}
		if name == "byte" {
			return types.Typ[types.Uint8]
		}
		if name == "error" {
			return types.Universe.Lookup("error").Type()
		}
		return nil
	}
	pn, tn := name[:i], name[i+1:]
	p := ld.pkgByPath[pn]
	if p == nil {
		p = ld.pkgByName[pn]
	}
	if p == nil {
		return nil
	}
	obj := p.Scope().Lookup(tn)
	if obj == nil {
		return nil
	}
	if ptr {
		return types.NewPointer(obj.Type())
	}
	return obj.Type()
}

// repoFuncs lists functions defined in the repository package with the given import path.
func (ld *Loader) repoFuncs(pkgPath string) []*ssa.Function {
	var out []*ssa.Function
	for _, fn := range ld.funcs {
		if fn.Pkg != nil && fn.Pkg.Pkg.Path() == pkgPath && fn.Synthetic == "" {
			out = append(out, fn)
		} else if fn.Parent() != nil && fn.Parent().Pkg != nil && fn.Parent().Pkg.Pkg.Path() == pkgPath {
			out = append(out, fn)
		}
	}
	sort.Slice(out, func(i, j int) bool { return out[i].String() < out[j].String() })
	return out
}

func (ld *Loader) relPos(p token.Pos) string {
	if !p.IsValid() {
		return ""
	}
	pp := ld.fset.Position(p)
	rel, err := filepath.Rel(ld.repoDir, pp.Filename)
	if err != nil {
		rel = pp.Filename
	}
	return fmt.Sprintf("%s:%d", rel, pp.Line)
}

const goRoot1268 = "/opt/veriftools/go1.26.8"

// goEnv is the environment for every go command the verifier runs: offline, pinned toolchain.
func goEnv() []string {
	var env []string
	for _, kv := range os.Environ() {
		k := kv[:strings.Index(kv, "=")]
		switch k {
		case "PATH", "GOFLAGS", "GOPROXY", "GOSUMDB", "GOTOOLCHAIN", "GOROOT":
			continue
		}
		env = append(env, kv)
	}
	path := os.Getenv("PATH")
	if _, err := os.Stat(goRoot1268 + "/bin/go"); err == nil {
		path = goRoot1268 + "/bin:" + path
	}
	return append(env, "PATH="+path, "GOFLAGS=-mod=mod", "GOPROXY=off", "GOSUMDB=off", "GOTOOLCHAIN=local")
}

func init() {
	// exec.LookPath resolves "go" against this process's PATH, so pin the toolchain here too.
	for _, kv := range goEnv() {
		i := strings.Index(kv, "=")
		switch kv[:i] {
		case "PATH", "GOFLAGS", "GOPROXY", "GOSUMDB", "GOTOOLCHAIN":
			os.Setenv(kv[:i], kv[i+1:])
		}
	}
}

// expandSweeps gives every top-level function of a swept file a contract entry: functions without a contract get a
// thin one (safety obligations only, invisible to callers); functions with a contract are marked as swept.
func (ld *Loader) expandSweeps(sp *Specs) {
	for k, fn := range ld.funcs {
		if fn.Parent() != nil || fn.Synthetic != "" || !fn.Pos().IsValid() || fn.Blocks == nil || !inRepo(fn) {
			continue
		}
		file := ld.fset.Position(fn.Pos()).Filename
		for _, sw := range sp.Sweeps {
			if !strings.HasSuffix(file, "/"+sw.File) {
				continue
			}
			ct := sp.Contracts[k]
			if ct == nil {
				ct = &Contract{Key: k, Pkg: fn.Pkg.Pkg.Path(), Loops: map[int]*LoopSpec{}, Where: sw.File, Thin: true}
				sp.Contracts[k] = ct
			}
			if ct.External {
				continue
			}
			// a trusted contract is an assumption for the function's callers; the function's own body is still swept for
			// panics and allocations (see runCheck)
			ct.SweepProps = append(ct.SweepProps, sw.Prop)
		}
		for _, cf := range sp.CtxFlowFiles {
			if !strings.HasSuffix(file, "/"+cf.File) || len(ctxParams(fn)) == 0 {
				continue
			}
			ct := sp.Contracts[k]
			if ct == nil {
				ct = &Contract{Key: k, Pkg: fn.Pkg.Pkg.Path(), Loops: map[int]*LoopSpec{}, Where: cf.File, Thin: true}
				sp.Contracts[k] = ct
			}
			if ct.External || len(ct.CtxFlow) > 0 {
				continue
			}
			ct.CtxFlow = append(ct.CtxFlow, &Clause{Label: "caller_context_passed_on", Src: "ctxflow", Where: "sweep.spec (ctxflowfile " + cf.File + ")", Props: []string{cf.Prop}})
		}
		for _, nf := range sp.NoCallFiles {
			if !strings.HasSuffix(file, "/"+nf.File) {
				continue
			}
			skip := false
			for _, ex := range nf.Except {
				if strings.HasSuffix(k, ex) {
					skip = true
				}
			}
			if skip {
				continue
			}
			ct := sp.Contracts[k]
			if ct == nil {
				ct = &Contract{Key: k, Pkg: fn.Pkg.Pkg.Path(), Loops: map[int]*LoopSpec{}, Where: nf.File, Thin: true}
				sp.Contracts[k] = ct
			}
			if ct.External {
				continue
			}
			dup := false
			for _, nc := range ct.NoCalls {
				if nc.Src == nf.Callee && hasProp(nc.Props, nf.Prop) {
					dup = true
				}
			}
			if !dup {
				ct.NoCalls = append(ct.NoCalls, &Clause{Label: nf.Label, Src: nf.Callee, Where: nf.Where, Props: []string{nf.Prop}})
			}
		}
	}
}
