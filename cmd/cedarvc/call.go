package main

import (
	"fmt"
	"go/ast"
	"go/types"
	"sort"
	"strings"

	"golang.org/x/tools/go/ssa"
)

const maxAllocDefault = 16*1024*1024 + 4096

func (tr *Trans) allocBound(x *ssa.MakeSlice, cp Term) {
	if _, ok := constBits(cp.S); ok {
		return
	}
	es := int64(1)
	if b, ok := under(under(x.Type()).(*types.Slice).Elem()).(*types.Basic); ok {
		switch w, _ := intBits(b); w {
		case 16:
			es = 2
		case 32:
			es = 4
		case 64:
			es = 8
		}
	} else {
		es = 16
	}
	ord := tr.ordinal("alloc", x)
	bound := intT(maxAllocDefault)
	if tr.contract != nil && tr.top && tr.contract.Allocs[ord] != nil {
		env := tr.topEnv(tr.st)
		bound = env.eval(tr.contract.Allocs[ord].AST).C[0]
	}
	goal := le(mul(cp, intT(es)), bound)
	if !(tr.contract != nil && tr.top && tr.contract.Allocs[ord] != nil) {
		// in proportion to data already held: at most four times (plus 4096) as many elements as a length this function has taken with len()
		alts := []Term{goal}
		for _, l := range tr.g.obsLens {
			alts = append(alts, le(cp, add(mul(intT(4), l), intT(4096))))
		}
		goal = or(alts...)
	}
	tr.e.oblige(&Obl{Name: fmt.Sprintf("%s#alloc#%d", tr.label, ord), Kind: "alloc-bound", Cond: tr.rc,
		Goal: goal, Pos: tr.posOf(x), Fn: tr.label, Props: tr.safetyProps()})
}

// noteLen records a length the code computed with len(): allocations proportional to it are in proportion to data held.
func (g *Gen) noteLen(l Term) {
	if _, ok := constBits(l.S); ok {
		return
	}
	for _, x := range g.obsLens {
		if x.S == l.S {
			return
		}
	}
	if len(g.obsLens) >= 12 {
		g.obsLens = g.obsLens[1:]
	}
	g.obsLens = append(g.obsLens, l)
}

func ifaceMethodKey(t types.Type, method string) string {
	return types.TypeString(t, nil) + "." + method
}

// call translates a call instruction (also used for defers). resT may be nil for no value.
// call translates a call and maintains two activation-local ghosts that "rejection is justified" clauses use:
// `calleefailed` (some call made so far returned a non-nil error, error constructors excepted) and `lastminted` (the
// value the most recent error constructor - fmt.Errorf, errors.New - returned). Both are per top-level activation; calls
// inside inlined helpers count (the helper's text is part of the function being verified).
func (tr *Trans) call(c *ssa.CallCommon, in ssa.Instruction, resT types.Type) Val {
	r := tr.callInner(c, in, resT)
	// `lastrecv_<method>`: the receiver of the latest call of a method on this path (kept in the state, so it is
	// path-sensitive): lets an in-body assert say "this call is made on the object that call was made on"
	if sc := c.StaticCallee(); sc != nil && sc.Signature.Recv() != nil && len(c.Args) > 0 && !c.IsInvoke() {
		if v := tr.val(c.Args[0]); len(v.C) == 1 && v.C[0].Sort == SInt {
			tr.st.set("L$lastrecv$"+sc.Name(), v.C[0])
		}
	}
	res := c.Signature().Results()
	if res.Len() == 0 || len(r.C) == 0 {
		return r
	}
	last := res.At(res.Len() - 1).Type()
	if !isErrorType(last) {
		return r
	}
	off := 0
	for i := 0; i < res.Len()-1; i++ {
		off += ncomps(res.At(i).Type())
	}
	if off >= len(r.C) || r.C[off].Sort != SInt {
		return r
	}
	ev := r.C[off]
	name := ""
	if sc := c.StaticCallee(); sc != nil {
		name = sc.String()
	}
	if name == "fmt.Errorf" || name == "errors.New" {
		tr.st.set("L$lastminted", ev)
		return r
	}
	cf := tr.st.get(tr.e, "D$calleefailed", SBool)
	tr.st.set("D$calleefailed", or(cf, not(eq(ev, intT(0)))))
	return r
}

func isErrorType(t types.Type) bool {
	n, ok := t.(*types.Named)
	return ok && n.Obj().Pkg() == nil && n.Obj().Name() == "error"
}

func (tr *Trans) callInner(c *ssa.CallCommon, in ssa.Instruction, resT types.Type) Val {
	if resT == nil {
		resT = c.Signature().Results()
	}
	var args []Val
	if c.IsInvoke() {
		recv := tr.val(c.Value)
		args = append(args, recv)
		for _, a := range c.Args {
			args = append(args, tr.val(a))
		}
		key := ifaceMethodKey(c.Value.Type(), c.Method.Name())
		tr.g.calleesUsed[key] = "invoke"
		tr.noCallCheck(key, in)
		if ct := tr.g.specs.Contracts[key]; ct != nil {
			return tr.applyContract(ct, nil, c.Signature(), args, in, resT, key, true)
		}
		// embedded interface methods: try the method's declaring interface
		if m := c.Method; m != nil {
			if recvT := m.Type().(*types.Signature).Recv(); recvT != nil {
				k2 := ifaceMethodKey(recvT.Type(), m.Name())
				if ct := tr.g.specs.Contracts[k2]; ct != nil {
					return tr.applyContract(ct, nil, c.Signature(), args, in, resT, k2, true)
				}
			}
		}
		return tr.havocCall(key, args, resT, in)
	}
	for _, a := range c.Args {
		args = append(args, tr.val(a))
	}
	switch v := c.Value.(type) {
	case *ssa.Builtin:
		return tr.builtin(v, c, args, in, resT)
	case *ssa.Function:
		tr.recvNilCheck(in, c, args)
		return tr.staticCall(v, nil, args, in, resT)
	case *ssa.MakeClosure:
		fv := tr.val(v)
		return tr.staticCall(v.Fn.(*ssa.Function), fv.Bind, args, in, resT)
	}
	fv := tr.val(c.Value)
	if fv.Fn != nil {
		return tr.staticCall(fv.Fn, fv.Bind, args, in, resT)
	}
	// function value: contract keyed by the field/variable it was read from, else havoc
	key := "dyn:" + c.Value.Name()
	if cl, ok := c.Value.(*ssa.Call); ok {
		if sc := cl.Call.StaticCallee(); sc != nil {
			key = "funcresult:" + sc.String()
		}
	}
	if ex, ok := c.Value.(*ssa.Extract); ok {
		if cl, ok := ex.Tuple.(*ssa.Call); ok {
			if sc := cl.Call.StaticCallee(); sc != nil {
				key = fmt.Sprintf("funcresult:%s#%d", sc.String(), ex.Index)
			}
		}
	}
	if ld, ok := c.Value.(*ssa.UnOp); ok {
		if fa, ok := ld.X.(*ssa.FieldAddr); ok {
			pt := under(fa.X.Type()).(*types.Pointer).Elem()
			key = "funcfield:" + fieldKeyOf(pt, under(pt).(*types.Struct).Field(fa.Field).Name())
		}
	}
	if fl, ok := c.Value.(*ssa.Field); ok {
		// h.fn(...) on a struct value
		if st, ok := under(fl.X.Type()).(*types.Struct); ok {
			key = "funcfield:" + fieldKeyOf(fl.X.Type(), st.Field(fl.Field).Name())
		}
	}
	if ct := tr.g.specs.Contracts[key]; ct != nil {
		if ct.Determ && len(fv.C) >= 1 {
			// the function value itself is the first operand of the deterministic application
			args = append([]Val{{T: tInt, C: []Term{fv.C[0]}}}, args...)
			saved := ct.Params
			if len(ct.Params) > 0 {
				ct.Params = append([]string{"fn$"}, ct.Params...)
			}
			r := tr.applyContract(ct, nil, c.Signature(), args, in, resT, key, false)
			ct.Params = saved
			return r
		}
		return tr.applyContract(ct, nil, c.Signature(), args, in, resT, key, false)
	}
	return tr.havocCall(key, args, resT, in)
}

func (tr *Trans) staticCall(fn *ssa.Function, binds []Val, args []Val, in ssa.Instruction, resT types.Type) Val {
	key := fn.String()
	tr.noCallCheck(key, in)
	ct := tr.g.specs.Contracts[key]
	if ct != nil && ct.Thin {
		ct = nil
	}
	if fn.Synthetic != "" && ct == nil {
		// wrappers/thunks: try the wrapped method
		if fn.Object() != nil {
			if f2 := tr.g.ld.prog.FuncValue(fn.Object().(*types.Func)); f2 != nil && f2 != fn {
				if c2 := tr.g.specs.Contracts[f2.String()]; c2 != nil {
					ct, fn, key = c2, f2, f2.String()
				}
			}
		}
	}
	if fn == tr.fn && tr.top && tr.g.opts.Safety && tr.g.dry == 0 {
		// direct recursion: needs a measure (contract clause `loop 0 decreases <expr>`); without one the depth
		// is not bounded by anything the verifier can see
		var goal Term = tFalse
		if tr.contract != nil && tr.contract.Loops[0] != nil && tr.contract.Loops[0].Decreases != nil {
			d := tr.contract.Loops[0].Decreases
			envNow := tr.newEnv(tr.pre, tr.st)
			for i, p := range fn.Params {
				if i < len(args) {
					envNow.vars[p.Name()] = args[i]
				}
			}
			envEntry := tr.topEnv(tr.pre)
			envEntry.useOld = true
			m1 := envNow.eval(d.AST).C[0]
			m0 := envEntry.eval(d.AST).C[0]
			goal = and(lt(m1, m0), ge(m0, intT(0)))
		}
		tr.e.oblige(&Obl{Name: fmt.Sprintf("%s#recursion#%d", tr.label, tr.ordinal("recursion", in)), Kind: "recursion", Cond: tr.rc, Goal: goal,
			Pos: tr.posOf(in), Fn: tr.label, Props: tr.safetyProps()})
	}
	isClosure := fn.Parent() != nil
	inlineWithAsserts := func() Val {
		short := strings.ReplaceAll(key, "github.com/bbockelm/cedar/", "")
		ord := tr.calleeOrdinal(short, in)
		pre := tr.st
		tr.callerAsserts("before", short, ord, args, Val{}, pre, pre)
		r := tr.inline(fn, binds, args, resT)
		tr.callerAsserts("after", short, ord, args, r, pre, tr.st)
		return r
	}
	if (isClosure && ct == nil || ct != nil && ct.Inline) && fn.Blocks != nil && tr.g.depth < 8 {
		tr.g.calleesUsed[key] = "inlined"
		return inlineWithAsserts()
	}
	if ct == nil && fn.Blocks != nil && tr.g.depth < 4 && fn != tr.fn && inRepo(fn) && smallBody(fn, 80) {
		// small helper of the repository without a contract: transparent (keeps proofs stable under helper extraction)
		tr.g.calleesUsed[key] = "inlined"
		return inlineWithAsserts()
	}
	if ct != nil {
		if ct.Trusted || ct.External {
			tr.g.calleesUsed[key] = "assumed"
		} else {
			tr.g.calleesUsed[key] = "contract"
		}
		switch key {
		case "(*sync.Mutex).Lock":
			tr.interfere("sync.Mutex")
		case "(*sync.RWMutex).Lock", "(*sync.RWMutex).RLock":
			tr.interfere("sync.RWMutex")
		}
		res := tr.applyContract(ct, fn, fn.Signature, args, in, resT, key, false)
		switch key {
		case "(*sync.Mutex).Unlock":
			tr.st.set("L$relsd$sync.Mutex", tTrue)
		case "(*sync.RWMutex).Unlock", "(*sync.RWMutex).RUnlock":
			tr.st.set("L$relsd$sync.RWMutex", tTrue)
		}
		return res
	}
	return tr.havocCall(key, args, resT, in)
}

// noCallCheck: the function under verification declared `nocall` for this callee (static call or interface method).
func (tr *Trans) noCallCheck(key string, in ssa.Instruction) {
	top := tr.g.topTr
	if top == nil || top.contract == nil || tr.g.dry > 0 || !tr.g.opts.Safety {
		return
	}
	for _, nc := range top.contract.NoCalls {
		if strings.HasSuffix(key, nc.Src) {
			tr.g.noCallN++
			tr.e.oblige(&Obl{Name: fmt.Sprintf("%s#nocall:%s@%d", top.label, nc.Label, tr.g.noCallN), Kind: "nocall", Props: nc.Props,
				Cond: tr.rc, Goal: tFalse, Pos: tr.posOf(in), Fn: top.label})
		}
	}
}

// interfere models other goroutines at a lock acquisition: if this function has already released a lock of this
// kind, everything declared guarded_by such a lock may have changed in between (a second critical section does not
// see the state the first one left). The first acquisition is the function's linearisation point: the entry state.
func (tr *Trans) interfere(kind string) {
	g := tr.g
	rel := tr.st.get(tr.e, "L$relsd$"+kind, SBool)
	if rel.S == "false" {
		return
	}
	var ts []target
	seen := map[string]bool{}
	add := func(key string, sort Sort) {
		if !seen[key] {
			seen[key] = true
			ts = append(ts, target{key: key, sort: sort, whole: true, cond: rel})
		}
	}
	var addType func(structT types.Type, fv *types.Var, depth int)
	addType = func(structT types.Type, fv *types.Var, depth int) {
		ft := fv.Type()
		if isObjType(ft) {
			if st, ok := under(ft).(*types.Struct); ok && depth < 3 {
				for i := 0; i < st.NumFields(); i++ {
					addType(ft, st.Field(i), depth+1)
				}
			}
			return
		}
		for _, c := range comps(ft) {
			add(fieldKeyOf(structT, fv.Name())+c.Suffix, arrSort(SInt, c.Sort))
		}
		if mt, ok := under(ft).(*types.Map); ok {
			if mk := mapKeys(mt); mk != nil {
				add(mk.has, mk.hasSort)
				add(mk.length, arrSort(SInt, SInt))
				for _, ks := range mk.vals {
					add(ks.key, ks.sort)
				}
			}
		}
	}
	for _, gb := range g.specs.Guarded {
		parts := strings.Split(gb.Field, ".")
		if len(parts) != 3 {
			continue
		}
		pk := g.ld.pkgByName[parts[0]]
		if pk == nil {
			continue
		}
		obj := pk.Scope().Lookup(parts[1])
		if obj == nil {
			continue
		}
		st, ok := under(obj.Type()).(*types.Struct)
		if !ok {
			continue
		}
		mname := gb.Mutex[strings.LastIndex(gb.Mutex, ".")+1:]
		var fld, mu *types.Var
		for i := 0; i < st.NumFields(); i++ {
			if st.Field(i).Name() == parts[2] {
				fld = st.Field(i)
			}
			if st.Field(i).Name() == mname {
				mu = st.Field(i)
			}
		}
		if fld == nil || mu == nil || typeKey(mu.Type()) != kind {
			continue
		}
		addType(obj.Type(), fld, 0)
	}
	tr.havocList(ts)
}

func (tr *Trans) inline(fn *ssa.Function, binds []Val, args []Val, resT types.Type) Val {
	g := tr.g
	g.depth++
	defer func() { g.depth-- }()
	sub := g.newTrans(fn, false)
	sub.label = tr.label + ">" + shortName(fn)
	for i, fv := range fn.FreeVars {
		if i < len(binds) {
			sub.freeVars[fv] = binds[i]
		}
	}
	sub.run(tr.st, tr.rc, args)
	if len(sub.rets) == 0 {
		tr.rc = tFalse
		return tr.freshVal(resT, "noret", tr.st, tr.rc)
	}
	var ps []epParent
	var conds []Term
	for _, r := range sub.rets {
		ps = append(ps, epParent{r.cond, r.st})
		conds = append(conds, r.cond)
	}
	tr.st = g.mergeStates(ps)
	tr.rc = tr.e.name("reach", or(conds...))
	// merge results
	out := Val{T: resT}
	nres := len(sub.rets[0].results)
	for i := 0; i < nres; i++ {
		var acc Val
		for k := len(sub.rets) - 1; k >= 0; k-- {
			v := sub.rets[k].results[i]
			if k == len(sub.rets)-1 {
				acc = v
			} else {
				acc = tr.iteVal(sub.rets[k].cond, v, acc, v.T)
			}
		}
		out.C = append(out.C, acc.C...)
		if nres == 1 {
			out.Addr, out.Fn, out.Bind, out.Lit = acc.Addr, acc.Fn, acc.Bind, acc.Lit
		}
	}
	return out
}

func shortName(fn *ssa.Function) string {
	s := fn.Name()
	if r := fn.Signature.Recv(); r != nil {
		t := r.Type()
		if p, ok := t.(*types.Pointer); ok {
			t = p.Elem()
		}
		if n, ok := t.(*types.Named); ok {
			return n.Obj().Name() + "." + s
		}
	}
	return s
}

// havocCall models a call with no contract: everything reachable may change.
func (tr *Trans) havocCall(key string, args []Val, resT types.Type, in ssa.Instruction) Val {
	tr.g.calleesUsed[key] = "havoc"
	tr.e.note("%s: call to %s has no contract (heap havocked)", tr.label, key)
	// cells whose address is passed escape
	esc := map[string]bool{}
	for _, a := range args {
		if a.Addr != nil && a.Addr.Kind == AddrCell {
			for _, c := range comps(a.Addr.T) {
				esc[a.Addr.Key+c.Suffix] = true
			}
		}
		for _, b := range a.Bind {
			if b.Addr != nil && b.Addr.Kind == AddrCell {
				for _, c := range comps(b.Addr.T) {
					esc[b.Addr.Key+c.Suffix] = true
				}
			}
		}
	}
	short := strings.ReplaceAll(key, "github.com/bbockelm/cedar/", "")
	ord := tr.calleeOrdinal(short, in)
	tr.callerAsserts("before", short, ord, args, Val{}, tr.st, tr.st)
	prev := tr.st
	tr.st = tr.g.havocAll(tr.st, esc)
	defer func() {
		// in-body asserts placed after a contract-less call see the havocked state
		tr.callerAsserts("after", short, ord, args, Val{}, prev, tr.st)
	}()
	if !strings.Contains(key, repoModule) {
		// code outside the repository cannot reach cedar's unexported mutexes: ghost lock state survives (assumption, listed)
		for _, lk := range []string{"lock$sync.Mutex", "lock$sync.RWMutex.w", "lock$sync.RWMutex.r"} {
			tr.st.set(lk, prev.get(tr.e, lk, arrSort(SInt, SInt)))
		}
		tr.e.note("assumed: calls into code outside the repository (%s) do not lock or unlock cedar's mutexes", key)
	}
	return tr.freshVal(resT, "res", tr.st, tr.rc)
}

// ---------- contracts at call sites ----------

func (tr *Trans) paramNames(ct *Contract, fn *ssa.Function, sig *types.Signature, invoke bool) []string {
	if len(ct.Params) > 0 || fn == nil {
		names := append([]string{}, ct.Params...)
		if invoke || (fn == nil && sig.Recv() != nil) {
			names = append([]string{"self"}, names...)
		}
		if len(ct.Params) == 0 && fn == nil {
			// default: signature parameter names
			ps := sig.Params()
			for i := 0; i < ps.Len(); i++ {
				n := ps.At(i).Name()
				if n == "" || n == "_" {
					n = fmt.Sprintf("arg%d", i)
				}
				names = append(names, n)
			}
		}
		return names
	}
	var names []string
	for i, p := range fn.Params {
		n := p.Name()
		if n == "" || n == "_" {
			n = fmt.Sprintf("arg%d", i)
		}
		names = append(names, n)
	}
	return names
}

func resultNames(ct *Contract, sig *types.Signature) []string {
	rs := sig.Results()
	if len(ct.Results) == rs.Len() && rs.Len() > 0 {
		return ct.Results
	}
	var names []string
	for i := 0; i < rs.Len(); i++ {
		n := rs.At(i).Name()
		if n == "" || n == "_" {
			if rs.Len() == 1 {
				n = "result"
			} else if i == rs.Len()-1 && types.TypeString(rs.At(i).Type(), nil) == "error" {
				n = "err"
			} else if i == 0 {
				n = "result"
			} else {
				n = fmt.Sprintf("r%d", i)
			}
		}
		names = append(names, n)
	}
	return names
}

func (tr *Trans) bindResults(env *Env, ct *Contract, sig *types.Signature, res Val) {
	names := resultNames(ct, sig)
	rs := sig.Results()
	off := 0
	for i := 0; i < rs.Len(); i++ {
		n := ncomps(rs.At(i).Type())
		if off+n <= len(res.C) {
			v := Val{T: rs.At(i).Type(), C: res.C[off : off+n]}
			env.vars[names[i]] = v
			if rs.Len() == 1 {
				env.vars["result"] = v
			}
			if i == rs.Len()-1 && types.TypeString(rs.At(i).Type(), nil) == "error" {
				env.vars["err"] = v
			}
		}
		off += n
	}
}

// calleeOrdinal numbers the calls to one callee in source order (independent of block layout).
func (tr *Trans) calleeOrdinal(name string, in ssa.Instruction) int {
	if in == nil {
		tr.callOrd[name]++
		return tr.callOrd[name]
	}
	if tr.callRank == nil {
		tr.callRank = map[ssa.Instruction]int{}
		byCallee := map[string][]ssa.Instruction{}
		for _, b := range tr.fn.Blocks {
			for _, i := range b.Instrs {
				var cc *ssa.CallCommon
				switch x := i.(type) {
				case *ssa.Call:
					cc = &x.Call
				case *ssa.Defer:
					cc = &x.Call
				case *ssa.Go:
					cc = &x.Call
				}
				if cc == nil {
					continue
				}
				k := ""
				if cc.IsInvoke() {
					k = ifaceMethodKey(cc.Value.Type(), cc.Method.Name())
				} else if sc := cc.StaticCallee(); sc != nil {
					k = sc.String()
				} else {
					k = "dyn"
				}
				byCallee[k] = append(byCallee[k], i)
			}
		}
		for _, list := range byCallee {
			sort.SliceStable(list, func(a, b int) bool { return list[a].Pos() < list[b].Pos() })
			for n, i := range list {
				tr.callRank[i] = n + 1
			}
		}
	}
	if n, ok := tr.callRank[in]; ok {
		return n
	}
	tr.callOrd[name]++
	return tr.callOrd[name]
}

func (tr *Trans) applyContract(ct *Contract, fn *ssa.Function, sig *types.Signature, args []Val, in ssa.Instruction, resT types.Type, key string, invoke bool) Val {
	short := strings.ReplaceAll(key, "github.com/bbockelm/cedar/", "")
	ord := tr.calleeOrdinal(short, in)
	pre := tr.st.clone()
	names := tr.paramNames(ct, fn, sig, invoke)
	mkEnv := func(preS, postS *State) *Env {
		env := tr.newEnv(preS, postS)
		env.contract = ct
		if fn != nil && fn.Pkg != nil {
			env.pkg = fn.Pkg.Pkg
		} else if p := tr.g.ld.pkgByPath[ct.Pkg]; p != nil {
			env.pkg = p
		}
		for i, n := range names {
			if i < len(args) {
				env.vars[n] = args[i]
			}
		}
		return env
	}
	// caller-side assertions before the call
	tr.callerAsserts("before", short, ord, args, Val{}, pre, pre)
	// requires
	if tr.g.dry == 0 {
		for _, rq := range ct.Requires {
			env := mkEnv(pre, pre)
			// a data-structure invariant over unexported state is the owning package's obligation; swept functions and
			// functions of other packages (which cannot reach that state) assume it
			if top := tr.g.topTr; rq.TypeInv && top != nil && (top.contract != nil && top.contract.Thin || top.fn.Pkg != nil && ct.Pkg != "" && top.fn.Pkg.Pkg.Path() != ct.Pkg ||
				rq.TypeInvFile != "" && top.fn.Pos().IsValid() && !strings.HasSuffix(tr.g.ld.fset.Position(top.fn.Pos()).Filename, rq.TypeInvFile)) {
				tr.assumeClause(env, tr.rc, rq.AST)
				tr.g.e.note("assumed: data-structure invariant '%s' of %s holds for the values swept functions pass to it", rq.Label, short)
				continue
			}
			t, extra := tr.goalClause(env, rq.AST)
			tr.e.oblige(&Obl{Name: fmt.Sprintf("%s#requires@%s#%d:%s", tr.label, short, ord, rq.Label), Kind: "requires@call",
				Props: tr.calleeReqProps(rq.Props), Cond: tr.rc, Goal: t, Pos: tr.posOf(in), Fn: tr.label, Extra: extra})
		}
	}
	// effects
	if ct.Pure {
		// nothing changes
	} else if !ct.HasAssigns {
		tr.e.note("%s: callee %s has a contract without assigns (heap havocked)", tr.label, short)
		tr.st = tr.g.havocAll(tr.st, nil)
		tr.st.ep.keep = ct.Preserves
	} else {
		env := mkEnv(pre, pre)
		tr.havocTargets(env, ct)
	}
	// a call may allocate
	if !ct.Pure || true {
		wm := tr.st.get(tr.e, "$wm", SInt)
		nwm := tr.e.fresh("wm", SInt)
		tr.e.assume(tr.rc, ge(nwm, wm))
		tr.st.set("$wm", nwm)
	}
	res := tr.freshVal(resT, "res$"+shortLast(short), tr.st, tr.rc)
	if ct.Determ && len(res.C) == 1 {
		if t, ok := tr.determTerm(key, args, res.C[0].Sort); ok {
			tr.e.assume(tr.rc, eq(res.C[0], t))
		}
	}
	env := mkEnv(pre, tr.st.clone())
	tr.bindResults(env, ct, sig, res)
	if ct.NonNil && len(res.C) >= 1 {
		tr.e.assume(tr.rc, not(eq(res.C[0], intT(0))))
	}
	for _, en := range ct.Ensures {
		if mentionsActivationGhost(en.AST) {
			continue // `calleefailed` / `lastminted` speak about the callee's own activation: proved there, meaningless here
		}
		if fn != nil && mentionsLocalsOf(fn, ct, names, en.AST) && env.hasUnresolvable(en.AST) {
			continue // a postcondition phrased over the callee's own locals: proved there, not usable by callers
		}
		if p := tr.g.opts.Prop; p != "" && !en.Shared && len(en.Props) > 0 && !hasProp(en.Props, p) && !ct.Trusted && !ct.External {
			if top := tr.g.topTr; top != nil && top.fn.Pkg != nil && ct.Pkg != "" && top.fn.Pkg.Pkg.Path() != ct.Pkg {
				continue // another package's postcondition that serves other properties only
			}
		}
		if p := tr.g.opts.Prop; p != "" && ct.External && len(en.Props) > 0 && !hasProp(en.Props, p) {
			continue // an assumed library fact that only the named properties' proofs need (keeps other queries small)
		}
		tr.assumeClause(env, tr.rc, en.AST)
	}
	tr.callerAsserts("after", short, ord, args, res, pre, tr.st)
	return res
}

// determTerm is the uninterpreted application standing for the result of a `deterministic` function.
func (tr *Trans) determTerm(key string, args []Val, sort Sort) (Term, bool) {
	var as []Term
	var sorts []Sort
	for _, a := range args {
		if len(a.C) != 1 {
			return Term{}, false
		}
		as = append(as, a.C[0])
		sorts = append(sorts, a.C[0].Sort)
	}
	f := tr.e.declareFun("det$"+sanitize(key), sorts, sort)
	if len(as) == 0 {
		return Term{f, sort}, true
	}
	return app(sort, f, as...), true
}

func shortLast(s string) string {
	if i := strings.LastIndexAny(s, "./)"); i >= 0 && i+1 < len(s) {
		return s[i+1:]
	}
	return s
}

func unionProps(a, b []string) []string {
	seen := map[string]bool{}
	var out []string
	for _, x := range append(append([]string{}, a...), b...) {
		if !seen[x] {
			seen[x] = true
			out = append(out, x)
		}
	}
	return out
}

// calleeReqProps: a callee precondition counts for the callee's properties and the caller's; in a swept (thin) caller
// only for the callee's own tags - its functional preconditions are not the sweep's business, its safety ones are.
func (tr *Trans) calleeReqProps(rq []string) []string {
	top := tr.g.topTr
	if top != nil && top.contract != nil && top.contract.Thin {
		if len(rq) == 0 {
			return []string{"-"}
		}
		return rq
	}
	return unionProps(rq, tr.propsOf())
}

func (tr *Trans) framePropsOf() []string {
	if tr.contract != nil {
		return unionProps(tr.contract.Props, tr.contract.FrameProps)
	}
	return nil
}

func (tr *Trans) propsOf() []string {
	if tr.contract != nil {
		return tr.contract.Props
	}
	return nil
}

// callerAsserts checks `assert before|after call <callee> #n` clauses of the enclosing contract.
func (tr *Trans) callerAsserts(when, callee string, ord int, args []Val, res Val, pre, post *State) {
	if tr.top && when == "after" && len(res.C) > 0 {
		// lastres_<func>: what the most recent call of <func> returned (first result of a tuple-free call), so a later
		// in-body assert can say "this argument is that result"
		if tr.lastRes == nil {
			tr.lastRes = map[string]Val{}
		}
		tr.lastRes[shortLast(callee)] = res
	}
	if !tr.top && tr.g.dry == 0 {
		// a call inside an inlined helper: the enclosing function's `deepcall` asserts apply here too (the helper's text is
		// part of the function under verification), evaluated over the enclosing function's locals at the helper call
		if top := tr.g.topTr; top != nil && top != tr && top.contract != nil {
			for _, as := range top.contract.Asserts {
				if !as.Deep || as.When != when || !strings.HasSuffix(callee, as.Callee) {
					continue
				}
				env := top.topEnv(post)
				for i, a := range args {
					env.vars[fmt.Sprintf("arg%d", i)] = a
				}
				if len(res.C) > 0 {
					env.vars["callres"] = res
				}
				for k, v := range top.lastRes {
					env.vars["lastres_"+k] = v
				}
				saved := top.st
				top.st = post
				t, extra := top.goalClause(env, as.Clause.AST)
				top.st = saved
				helper := "helper"
				if tr.fn != nil {
					helper = tr.fn.Name()
				}
				tr.e.oblige(&Obl{Name: fmt.Sprintf("%s#assert-%s@%s#in:%s#%d:%s", top.label, when, as.Callee, helper, ord, as.Clause.Label), Kind: "assert",
					Props: as.Clause.Props, Cond: tr.rc, Goal: t, Pos: as.Clause.Where, Fn: top.label, Extra: extra})
			}
		}
	}
	if tr.contract == nil || !tr.top || tr.g.dry > 0 {
		return
	}
	for _, as := range tr.contract.Asserts {
		if as.Deep || as.When != when || !strings.HasSuffix(callee, as.Callee) {
			continue // (a deepcall assert is about calls inside inlined helpers only)
		}
		if as.Ordinal != 0 && as.Ordinal != ord {
			continue
		}
		if tr.g.assertHit == nil {
			tr.g.assertHit = map[*AssertSpec]bool{}
		}
		tr.g.assertHit[as] = true
		env := tr.topEnv(post)
		for i, a := range args {
			env.vars[fmt.Sprintf("arg%d", i)] = a
		}
		if len(res.C) > 0 {
			env.vars["callres"] = res
		}
		for k, v := range tr.lastRes {
			env.vars["lastres_"+k] = v
		}
		env.vars["__pre_call"] = Val{}
		t, extra := tr.goalClause(env, as.Clause.AST)
		tr.e.oblige(&Obl{Name: fmt.Sprintf("%s#assert-%s@%s#%d:%s", tr.label, when, as.Callee, ord, as.Clause.Label), Kind: "assert",
			Props: as.Clause.Props, Cond: tr.rc, Goal: t, Pos: as.Clause.Where, Fn: tr.label, Extra: extra})
		// the call site must be reachable in the model, or the assertion above is vacuous
		tr.e.oblige(&Obl{Name: fmt.Sprintf("%s#vacuity:assert-%s@%s#%d:%s-reachable", tr.label, when, as.Callee, ord, as.Clause.Label), Kind: "vacuity",
			Props: as.Clause.Props, Cond: tr.rc, Goal: tTrue, Vac: true, Fn: tr.label})
	}
}

// topEnv: environment of the function under verification: params bound, old() = function entry.
func (tr *Trans) topEnv(post *State) *Env {
	env := tr.newEnv(tr.pre, post)
	env.locals = true
	for i, p := range tr.fn.Params {
		n := p.Name()
		if tr.contract != nil && i < len(tr.contract.Params) && len(tr.contract.Params) == len(tr.fn.Params) {
			n = tr.contract.Params[i]
		}
		if i < len(tr.nameOverride) {
			n = tr.nameOverride[i]
		}
		if i < len(tr.params) {
			env.vars[n] = tr.params[i]
		}
	}
	// free variables of closures by name
	for fv, v := range tr.freeVars {
		if v.Addr != nil && v.Addr.Kind == AddrCell && len(v.C) == 0 && post != nil {
			// a variable captured by reference: the name denotes what the cell holds now
			env.vars[fv.Name()] = tr.readCell(post, v.Addr.Key, v.Addr.T)
			continue
		}
		env.vars[fv.Name()] = v
	}
	return env
}

// nameAt finds the SSA value a local variable holds at the instruction being translated, from the debug references
// of the build (one per source-level use or assignment of the name): the latest reference before the instruction in
// its block, else in the dominating blocks, else the phi carrying the name at a dominating merge. The answer is only
// accepted if no block on a path from the place it was found to the current instruction assigns the name a different
// value (such an assignment would have needed a phi that pruning may have removed).
func (tr *Trans) nameAt(name string) (ssa.Value, bool) {
	in := tr.curInstr
	if in == nil || in.Block() == nil || in.Parent() != tr.fn {
		return nil, false
	}
	b := in.Block()
	idx := len(b.Instrs)
	for i, x := range b.Instrs {
		if x == in {
			idx = i
			break
		}
	}
	refName := func(x ssa.Instruction) (ssa.Value, bool) {
		d, ok := x.(*ssa.DebugRef)
		if !ok || d.IsAddr {
			return nil, false
		}
		id, ok := d.Expr.(*ast.Ident)
		if !ok || id.Name != name {
			return nil, false
		}
		return d.X, true
	}
	chain := map[*ssa.BasicBlock]bool{}
	var found ssa.Value
	var fb *ssa.BasicBlock
	cur, limit := b, idx
	for cur != nil && found == nil {
		chain[cur] = true
		for i := limit - 1; i >= 0 && found == nil; i-- {
			if v, ok := refName(cur.Instrs[i]); ok {
				found, fb = v, cur
			}
		}
		if found == nil {
			for _, x := range cur.Instrs {
				phi, ok := x.(*ssa.Phi)
				if !ok {
					break
				}
				if phi.Comment == name {
					found, fb = phi, cur
					break
				}
			}
		}
		if found != nil {
			break
		}
		cur = cur.Idom()
		if cur != nil {
			limit = len(cur.Instrs)
		}
	}
	if found == nil {
		// an address-taken struct variable (var b strings.Builder): the variable is its cell; the name denotes the cell's
		// address, so b.f reads the field as the code does
		var cell *ssa.Alloc
		for _, blk := range tr.fn.Blocks {
			for _, x := range blk.Instrs {
				if a, ok := x.(*ssa.Alloc); ok && a.Comment == name {
					if _, isStruct := under(a.Type().(*types.Pointer).Elem()).(*types.Struct); !isStruct || cell != nil {
						return nil, false
					}
					cell = a
				}
			}
		}
		if cell != nil && (cell.Block() == b || cell.Block().Dominates(b)) {
			return cell, true
		}
		return nil, false
	}
	// blocks that can reach b without passing through fb
	seen := map[*ssa.BasicBlock]bool{b: true}
	work := []*ssa.BasicBlock{b}
	for len(work) > 0 {
		x := work[len(work)-1]
		work = work[:len(work)-1]
		if x == fb {
			continue
		}
		for _, p := range x.Preds {
			if !seen[p] {
				seen[p] = true
				work = append(work, p)
			}
		}
	}
	for x := range seen {
		if chain[x] && x != b {
			continue
		}
		if x == b || x == fb {
			continue // scanned above: the latest reference before the instruction won
		}
		for _, ins := range x.Instrs {
			if v, ok := refName(ins); ok && v != found {
				return nil, false
			}
		}
	}
	return found, true
}

// mentionsLocalsOf reports whether a clause of fn's contract names a local variable of fn (other than its parameters
// and results).
// mentionsActivationGhost: the clause names one of the activation-local ghosts of the function it belongs to.
func mentionsActivationGhost(e ast.Expr) bool {
	found := false
	ast.Inspect(e, func(n ast.Node) bool {
		if id, ok := n.(*ast.Ident); ok && (id.Name == "calleefailed" || id.Name == "lastminted") {
			found = true
		}
		return !found
	})
	return found
}

func mentionsLocalsOf(fn *ssa.Function, ct *Contract, paramNames []string, e ast.Expr) bool {
	known := map[string]bool{}
	for _, n := range paramNames {
		known[n] = true
	}
	for _, n := range ct.Results {
		known[n] = true
	}
	for _, l := range ct.Lets {
		known[l.Name] = true
	}
	locals := map[string]bool{}
	for _, b := range fn.Blocks {
		for _, in := range b.Instrs {
			if d, ok := in.(*ssa.DebugRef); ok && !d.IsAddr {
				if id, ok := d.Expr.(*ast.Ident); ok {
					locals[id.Name] = true
				}
			}
		}
	}
	found := false
	ast.Inspect(e, func(n ast.Node) bool {
		if id, ok := n.(*ast.Ident); ok && locals[id.Name] && !known[id.Name] {
			found = true
		}
		return !found
	})
	return found
}

// localType: the type of a local variable of the function, from its debug references (nil if no such local).
func (tr *Trans) localType(name string) types.Type {
	for _, b := range tr.fn.Blocks {
		for _, in := range b.Instrs {
			if d, ok := in.(*ssa.DebugRef); ok && !d.IsAddr {
				if id, ok := d.Expr.(*ast.Ident); ok && id.Name == name {
					return d.X.Type()
				}
			}
		}
	}
	return nil
}

// localDefs maps the source name of each local variable that is never merged by a phi to its SSA definitions.
func (tr *Trans) localDefs() map[string][]ssa.Value {
	if tr.locals != nil {
		return tr.locals
	}
	tr.locals = map[string][]ssa.Value{}
	multi := map[string]bool{}
	for _, b := range tr.fn.Blocks {
		for _, in := range b.Instrs {
			d, ok := in.(*ssa.DebugRef)
			if !ok || d.IsAddr {
				continue
			}
			id, ok := d.Expr.(*ast.Ident)
			if !ok {
				continue
			}
			if _, isPhi := d.X.(*ssa.Phi); isPhi {
				multi[id.Name] = true
				continue
			}
			if _, isConst := d.X.(*ssa.Const); isConst {
				continue
			}
			dup := false
			for _, o := range tr.locals[id.Name] {
				if o == d.X {
					dup = true
				}
			}
			if !dup {
				tr.locals[id.Name] = append(tr.locals[id.Name], d.X)
			}
		}
	}
	for n := range multi {
		delete(tr.locals, n)
	}
	return tr.locals
}

// ---------- assigns targets ----------

type target struct {
	key    string
	sort   Sort
	whole  bool // entire key
	ref    Term // object whose entry may change
	ranged bool
	lo, hi Term // absolute index range within the backing array
	desc   string
	cond   Term // the target may change only when cond holds (empty = always)
}

// fieldTargets lists the heap entries for field f of the struct at base (recursing into embedded objects).
func (tr *Trans) fieldTargets(structT types.Type, fv *types.Var, base Term, desc string) []target {
	ft := fv.Type()
	if isObjType(ft) {
		r := tr.g.fr(tr.e, structT, fv.Name(), base)
		return tr.objTargets(ft, r, desc)
	}
	var out []target
	for _, c := range comps(ft) {
		out = append(out, target{key: fieldKeyOf(structT, fv.Name()) + c.Suffix, sort: arrSort(SInt, c.Sort), ref: base, desc: desc})
	}
	return out
}

func (tr *Trans) objTargets(t types.Type, ref Term, desc string) []target {
	switch u := under(t).(type) {
	case *types.Struct:
		var out []target
		for i := 0; i < u.NumFields(); i++ {
			out = append(out, tr.fieldTargets(t, u.Field(i), ref, desc)...)
		}
		return out
	case *types.Array:
		var out []target
		if !isObjType(u.Elem()) {
			for _, ks := range elemKeys(u.Elem()) {
				out = append(out, target{key: ks.key, sort: ks.sort, ref: ref, desc: desc})
			}
		}
		return out
	}
	return nil
}

func (tr *Trans) targetsOf(env *Env, e ast.Expr) ([]target, bool) {
	src := exprString(e)
	switch x := e.(type) {
	case *ast.CallExpr:
		fn := exprString(x.Fun)
		switch fn {
		case "__all":
			return nil, true
		case "ifaceobj":
			// ifaceobj(x, "*pkg.T"): every field of the T object behind interface value x (if it is one)
			v := env.eval(x.Args[0])
			lit, ok := x.Args[1].(*ast.BasicLit)
			if !ok {
				env.fail("ifaceobj needs a type literal")
				return nil, true
			}
			tn := strings.Trim(lit.Value, "\"")
			t := tr.g.ld.lookupType(tn)
			pt, okp := t.(*types.Pointer)
			if t == nil || !okp || !isObjType(pt.Elem()) {
				env.fail("ifaceobj: %s is not a pointer to a struct type", tn)
				return nil, true
			}
			id := tr.g.typeID(t)
			uf := tr.e.declareFun(fmt.Sprintf("unbox$%d", id), []Sort{SInt}, SInt)
			ref := Term{fmt.Sprintf("(%s %s)", uf, v.C[0].S), SInt}
			c := and(not(eq(v.C[0], intT(0))), eq(tr.dynType(v.C[0]), intT(int64(id))))
			ts := tr.objTargets(pt.Elem(), ref, src)
			for k := range ts {
				ts[k].cond = c
			}
			return ts, false
		case "anylock":
			// anylock(): the ghost lock state of every sync.Mutex (callee locks and unlocks entries it finds)
			return []target{{key: "lock$sync.Mutex", sort: arrSort(SInt, SInt), whole: true, desc: src}}, false
		case "lock":
			// lock(m): the ghost lock state of the mutex m points to
			v := env.eval(x.Args[0])
			pt, ok := under(v.T).(*types.Pointer)
			if !ok || len(v.C) != 1 {
				env.fail("lock(): not a pointer to a mutex")
				return nil, true
			}
			switch typeKey(pt.Elem()) {
			case "sync.Mutex":
				return []target{{key: "lock$sync.Mutex", sort: arrSort(SInt, SInt), ref: v.C[0], desc: src}}, false
			case "sync.RWMutex":
				return []target{{key: "lock$sync.RWMutex.w", sort: arrSort(SInt, SInt), ref: v.C[0], desc: src}, {key: "lock$sync.RWMutex.r", sort: arrSort(SInt, SInt), ref: v.C[0], desc: src}}, false
			}
			env.fail("lock(): unsupported mutex type")
			return nil, true
		case "when":
			// when(cond, target): conditional frame
			c := env.evalBool(x.Args[0])
			ts, all := tr.targetsOf(env, x.Args[1])
			if all {
				return nil, true
			}
			for k := range ts {
				if ts[k].cond.ok() {
					ts[k].cond = and(ts[k].cond, c)
				} else {
					ts[k].cond = c
				}
			}
			return ts, false
		case "elems":
			v := env.eval(x.Args[0])
			var et types.Type
			switch u := under(v.T).(type) {
			case *types.Slice:
				et = u.Elem()
			case *types.Pointer:
				if at, ok := under(u.Elem()).(*types.Array); ok {
					et = at.Elem()
				}
			}
			if et == nil || isObjType(et) {
				env.fail("elems() of %s", v.T)
				return nil, true
			}
			var out []target
			for _, ks := range elemKeys(et) {
				out = append(out, target{key: ks.key, sort: ks.sort, ref: v.C[0], desc: src})
			}
			return out, false
		case "any":
			// any(x.f): field f of every object
			sel, ok := x.Args[0].(*ast.SelectorExpr)
			if !ok {
				env.fail("any() needs a field selector")
				return nil, true
			}
			base := env.eval(sel.X)
			p, ok := under(base.T).(*types.Pointer)
			if !ok {
				env.fail("any(): base is not a pointer")
				return nil, true
			}
			st := under(p.Elem()).(*types.Struct)
			for i := 0; i < st.NumFields(); i++ {
				if st.Field(i).Name() == sel.Sel.Name {
					ts := tr.fieldTargets(p.Elem(), st.Field(i), base.C[0], src)
					for k := range ts {
						ts[k].whole = true
					}
					return ts, false
				}
			}
			env.fail("any(): no such field")
			return nil, true
		case "obj":
			v := env.eval(x.Args[0])
			p, ok := under(v.T).(*types.Pointer)
			if !ok {
				env.fail("obj(): not a pointer")
				return nil, true
			}
			return tr.objTargets(p.Elem(), v.C[0], src), false
		case "mapof":
			v := env.eval(x.Args[0])
			mt, ok := under(v.T).(*types.Map)
			if !ok || mapKeys(mt) == nil {
				env.fail("mapof(): not a modelled map")
				return nil, true
			}
			mk := mapKeys(mt)
			out := []target{{key: mk.has, sort: mk.hasSort, ref: v.C[0], desc: src}, {key: mk.length, sort: arrSort(SInt, SInt), ref: v.C[0], desc: src}}
			for _, ks := range mk.vals {
				out = append(out, target{key: ks.key, sort: ks.sort, ref: v.C[0], desc: src})
			}
			return out, false
		}
	case *ast.Ident:
		if gv, ok := tr.g.specs.Ghosts[x.Name]; ok {
			return []target{{key: "G$" + gv.Name, sort: ghostSort(gv), whole: true, desc: src}}, false
		}
		v := env.eval(x)
		if sl, ok := under(v.T).(*types.Slice); ok && len(v.C) == 4 && !isObjType(sl.Elem()) {
			var out []target
			for _, ks := range elemKeys(sl.Elem()) {
				out = append(out, target{key: ks.key, sort: ks.sort, ref: v.C[0], ranged: true, lo: v.C[1], hi: add(v.C[1], v.C[2]), desc: src})
			}
			return out, false
		}
		if p, ok := under(v.T).(*types.Pointer); ok && isObjType(p.Elem()) {
			return tr.objTargets(p.Elem(), v.C[0], src), false
		}
		// package-level variable cell
		if env.pkg != nil {
			if obj, ok := env.pkg.Scope().Lookup(x.Name).(*types.Var); ok && !isObjType(obj.Type()) {
				var out []target
				for _, c := range comps(obj.Type()) {
					out = append(out, target{key: "G$" + env.pkg.Name() + "." + x.Name + c.Suffix, sort: c.Sort, whole: true, desc: src})
				}
				return out, false
			}
		}
	case *ast.SelectorExpr:
		base := env.eval(x.X)
		if p, ok := under(base.T).(*types.Pointer); ok {
			if st, ok := under(p.Elem()).(*types.Struct); ok && len(base.C) == 1 {
				for i := 0; i < st.NumFields(); i++ {
					if st.Field(i).Name() == x.Sel.Name {
						return tr.fieldTargets(p.Elem(), st.Field(i), base.C[0], src), false
					}
				}
			}
		}
	case *ast.IndexExpr:
		// ghostmap[obj]: the whole row of one object in a ghost two-level map
		if id, ok := x.X.(*ast.Ident); ok {
			if gv, ok := tr.g.specs.Ghosts[id.Name]; ok && gv.Type == "map2" {
				r := env.eval(x.Index)
				if len(r.C) == 1 {
					return []target{{key: "G$" + gv.Name, sort: ghostSort(gv), ref: r.C[0], desc: src}}, false
				}
			}
		}
	case *ast.SliceExpr:
		v := env.eval(x.X)
		var et types.Type
		var ref, off Term
		switch u := under(v.T).(type) {
		case *types.Slice:
			et, ref, off = u.Elem(), v.C[0], v.C[1]
		case *types.Pointer:
			if at, ok := under(u.Elem()).(*types.Array); ok {
				et, ref, off = at.Elem(), v.C[0], intT(0)
			}
		}
		if et != nil && !isObjType(et) {
			lo := off
			if x.Low != nil {
				lo = add(off, env.eval(x.Low).C[0])
			}
			var hi Term
			if x.High != nil {
				hi = add(off, env.eval(x.High).C[0])
			} else if len(v.C) == 4 {
				hi = add(off, v.C[2])
			} else {
				hi = intT(under(under(v.T).(*types.Pointer).Elem()).(*types.Array).Len())
			}
			var out []target
			for _, ks := range elemKeys(et) {
				out = append(out, target{key: ks.key, sort: ks.sort, ref: ref, ranged: true, lo: lo, hi: hi, desc: src})
			}
			return out, false
		}
	case *ast.StarExpr:
		v := env.eval(x.X)
		if p, ok := under(v.T).(*types.Pointer); ok && isObjType(p.Elem()) && len(v.C) == 1 {
			return tr.objTargets(p.Elem(), v.C[0], src), false
		}
	}
	env.fail("unsupported assigns target %s", src)
	return nil, true
}

func (tr *Trans) allTargets(env *Env, ct *Contract) ([]target, bool) {
	var out []target
	for _, a := range ct.Assigns {
		ts, all := tr.targetsOf(env, a)
		if all {
			return nil, true
		}
		out = append(out, ts...)
	}
	return out, false
}

// havocTargets applies a callee's assigns clause to the current state.
func (tr *Trans) havocTargets(env *Env, ct *Contract) {
	ts, all := tr.allTargets(env, ct)
	if all {
		tr.st = tr.g.havocAll(tr.st, nil)
		return
	}
	tr.havocList(ts)
}

func (tr *Trans) havocList(ts []target) {
	for _, t := range ts {
		cur := tr.st.get(tr.e, t.key, t.sort)
		if t.cond.ok() && t.cond.S == "false" {
			continue
		}
		guard := func(nw Term) Term {
			if t.cond.ok() {
				return ite(t.cond, nw, cur)
			}
			return nw
		}
		switch {
		case t.whole:
			tr.st.set(t.key, guard(tr.e.fresh("hv$"+t.key, t.sort)))
		case t.ranged:
			inner := t.sort.elem()
			old := sel(cur, t.ref)
			nw := tr.e.fresh("hvarr", inner)
			// frame: indices outside [lo,hi) keep their value
			tr.e.assume(tr.rc, Term{fmt.Sprintf("(forall ((i Int)) (! (=> (or (< i %s) (>= i %s)) (= (select %s i) (select %s i))) :pattern ((select %s i))))",
				t.lo.S, t.hi.S, nw.S, old.S, nw.S), SBool})
			tr.st.set(t.key, tr.e.name("H", guard(store(cur, t.ref, nw))))
		default:
			nv := tr.e.fresh("hv", t.sort.elem())
			tr.st.set(t.key, tr.e.name("H", guard(store(cur, t.ref, nv))))
		}
	}
}

// ---------- builtins ----------

func (tr *Trans) builtin(b *ssa.Builtin, c *ssa.CallCommon, args []Val, in ssa.Instruction, resT types.Type) Val {
	g := tr.g
	switch b.Name() {
	case "len":
		a := args[0]
		switch u := under(a.T).(type) {
		case *types.Slice:
			if len(a.C) == 4 {
				g.noteLen(a.C[2])
				return Val{T: resT, C: []Term{a.C[2]}}
			}
		case *types.Basic:
			l := g.strLen(tr.e, a.C[0])
			g.noteLen(l)
			return Val{T: resT, C: []Term{l}}
		case *types.Array:
			return Val{T: resT, C: []Term{intT(u.Len())}}
		case *types.Pointer:
			if at, ok := under(u.Elem()).(*types.Array); ok {
				return Val{T: resT, C: []Term{intT(at.Len())}}
			}
		case *types.Map:
			if mk := mapKeys(u); mk != nil {
				h := tr.st.get(tr.e, mk.length, arrSort(SInt, SInt))
				v := Val{T: resT, C: []Term{ite(eq(a.C[0], intT(0)), intT(0), sel(h, a.C[0]))}}
				tr.e.assume(tr.rc, ge(v.C[0], intT(0)))
				return v
			}
		}
		v := tr.freshVal(resT, "len", tr.st, tr.rc)
		tr.e.assume(tr.rc, ge(v.C[0], intT(0)))
		return v
	case "cap":
		a := args[0]
		if len(a.C) == 4 {
			return Val{T: resT, C: []Term{a.C[3]}}
		}
		v := tr.freshVal(resT, "cap", tr.st, tr.rc)
		tr.e.assume(tr.rc, ge(v.C[0], intT(0)))
		return v
	case "copy":
		return tr.builtinCopy(args, resT)
	case "append":
		return tr.builtinAppend(args, c, resT)
	case "delete":
		m, k := args[0], args[1]
		mt := under(m.T).(*types.Map)
		if mk := mapKeys(mt); mk != nil {
			h := tr.st.get(tr.e, mk.has, mk.hasSort)
			r := m.C[0]
			had := sel(sel(h, r), k.C[0])
			hl := tr.st.get(tr.e, mk.length, arrSort(SInt, SInt))
			tr.st.set(mk.length, tr.e.name("H", store(hl, r, ite(had, sub(sel(hl, r), intT(1)), sel(hl, r)))))
			tr.st.set(mk.has, tr.e.name("H", store(h, r, store(sel(h, r), k.C[0], tFalse))))
		}
		return Val{T: resT}
	case "min", "max":
		acc := args[0].C[0]
		for _, a := range args[1:] {
			cnd := le(acc, a.C[0])
			if b.Name() == "max" {
				cnd = ge(acc, a.C[0])
			}
			acc = ite(cnd, acc, a.C[0])
		}
		return Val{T: resT, C: []Term{acc}}
	case "recover":
		return tr.zeroVal(resT)
	case "print", "println":
		return Val{T: resT}
	case "clear":
		tr.e.note("%s: builtin clear abstracted (heap havocked)", tr.label)
		tr.st = g.havocAll(tr.st, nil)
		return Val{T: resT}
	case "close":
		return Val{T: resT}
	}
	tr.e.note("%s: builtin %s abstracted", tr.label, b.Name())
	return tr.freshVal(resT, "builtin", tr.st, tr.rc)
}

// copyInto returns the new backing array for dst after copying n elements from src terms.
func (tr *Trans) copyArr(dstArr Term, dstOff Term, srcAt func(i string) string, n Term) Term {
	nw := tr.e.fresh("cp", dstArr.Sort)
	tr.e.assume(tr.rc, Term{fmt.Sprintf("(forall ((i Int)) (! (= (select %s i) (ite (and (<= %s i) (< i (+ %s %s))) %s (select %s i))) :pattern ((select %s i))))",
		nw.S, dstOff.S, dstOff.S, n.S, srcAt("(- i "+dstOff.S+")"), dstArr.S, nw.S), SBool})
	return nw
}

func (tr *Trans) builtinCopy(args []Val, resT types.Type) Val {
	dst, src := args[0], args[1]
	if len(dst.C) != 4 {
		tr.e.note("%s: copy into untracked slice", tr.label)
		return tr.freshVal(resT, "copy", tr.st, tr.rc)
	}
	et := under(dst.T).(*types.Slice).Elem()
	var srcLen Term
	srcIsStr := isString(src.T)
	if srcIsStr {
		srcLen = tr.g.strLen(tr.e, src.C[0])
	} else {
		if len(src.C) != 4 {
			tr.e.note("%s: copy from untracked slice", tr.label)
			return tr.freshVal(resT, "copy", tr.st, tr.rc)
		}
		srcLen = src.C[2]
	}
	n := tr.e.name("ncopy", ite(le(dst.C[2], srcLen), dst.C[2], srcLen))
	if isObjType(et) {
		tr.e.note("%s: copy of object elements not modelled", tr.label)
		return Val{T: resT, C: []Term{n}}
	}
	for ci, ks := range elemKeys(et) {
		h := tr.st.get(tr.e, ks.key, ks.sort)
		dstArr := tr.e.name("dstarr", sel(h, dst.C[0]))
		var srcAt func(i string) string
		if srcIsStr {
			s := src.C[0]
			srcAt = func(i string) string { return tr.g.strAt(tr.e, s, Term{i, SInt}).S }
		} else {
			srcArr := tr.e.name("srcarr", sel(h, src.C[0]))
			so := src.C[1]
			srcAt = func(i string) string { return fmt.Sprintf("(select %s (+ %s %s))", srcArr.S, so.S, i) }
		}
		_ = ci
		nw := tr.copyArr(dstArr, dst.C[1], srcAt, n)
		tr.st.set(ks.key, tr.e.name("H", store(h, dst.C[0], nw)))
	}
	return Val{T: resT, C: []Term{n}}
}

func (tr *Trans) builtinAppend(args []Val, c *ssa.CallCommon, resT types.Type) Val {
	s := args[0]
	if len(args) == 1 {
		return s
	}
	add2 := args[1]
	if len(s.C) != 4 {
		tr.e.note("%s: append to untracked slice", tr.label)
		return tr.freshVal(resT, "append", tr.st, tr.rc)
	}
	et := under(s.T).(*types.Slice).Elem()
	var n Term
	srcIsStr := isString(add2.T)
	if srcIsStr {
		n = tr.g.strLen(tr.e, add2.C[0])
	} else if len(add2.C) == 4 {
		n = add2.C[2]
	} else {
		tr.e.note("%s: append of untracked slice", tr.label)
		return tr.freshVal(resT, "append", tr.st, tr.rc)
	}
	ref, off, ln, cp := s.C[0], s.C[1], s.C[2], s.C[3]
	newLen := tr.e.name("applen", add(ln, n))
	inplace := tr.e.name("inplace", le(newLen, cp))
	// new backing array when capacity is exceeded (or the source is nil)
	nref := tr.allocRef(tr.st)
	ncap := tr.e.fresh("appcap", SInt)
	tr.e.assume(tr.rc, ge(ncap, newLen))
	rref := tr.e.name("appref", ite(inplace, ref, nref))
	roff := ite(inplace, off, intT(0))
	rcap := ite(inplace, cp, ncap)
	// a nil slice with nothing appended stays nil
	res := Val{T: resT, C: []Term{rref, roff, newLen, rcap}}
	if !isObjType(et) {
		for _, ks := range elemKeys(et) {
			h := tr.st.get(tr.e, ks.key, ks.sort)
			oldArr := tr.e.name("apparr", sel(h, ref))
			var srcAt func(i string) string
			if srcIsStr {
				sv := add2.C[0]
				srcAt = func(i string) string { return tr.g.strAt(tr.e, sv, Term{i, SInt}).S }
			} else {
				srcArr := tr.e.name("appsrc", sel(h, add2.C[0]))
				so := add2.C[1]
				srcAt = func(i string) string { return fmt.Sprintf("(select %s (+ %s %s))", srcArr.S, so.S, i) }
			}
			nw := tr.e.fresh("app", oldArr.Sort)
			// in place: old array with [off+len, off+len+n) overwritten; fresh: [0,len) old contents, [len,len+n) source
			tr.e.assume(tr.rc, Term{fmt.Sprintf("(forall ((i Int)) (! (= (select %s i) (ite %s (ite (and (<= (+ %s %s) i) (< i (+ %s %s))) %s (select %s i)) (ite (and (<= 0 i) (< i %s)) (select %s (+ %s i)) (ite (and (<= %s i) (< i %s)) %s %s)))) :pattern ((select %s i))))",
				nw.S, inplace.S,
				off.S, ln.S, off.S, newLen.S, srcAt(fmt.Sprintf("(- i (+ %s %s))", off.S, ln.S)), oldArr.S,
				ln.S, oldArr.S, off.S,
				ln.S, newLen.S, srcAt("(- i "+ln.S+")"), zeroOfSort(oldArr.Sort.elem()).S,
				nw.S), SBool})
			tr.st.set(ks.key, tr.e.name("H", store(h, rref, nw)))
		}
	}
	return res
}

// ---------- defers ----------

func (tr *Trans) runDefers() {
	for i := len(tr.defers) - 1; i >= 0; i-- {
		d := tr.defers[i]
		flag := tr.st.get(tr.e, d.key, SBool)
		if flag.S == "false" {
			continue
		}
		before := tr.st.clone()
		savedRC := tr.rc
		tr.rc = tr.e.name("deferrc", and(tr.rc, flag))
		tr.call(&d.instr.Call, d.instr, nil)
		after := tr.st
		tr.rc = savedRC
		if flag.S == "true" {
			tr.st = after
		} else {
			tr.st = tr.g.mergeStates([]epParent{{flag, after}, {tTrue, before}})
		}
		tr.st.set(d.key, tFalse)
	}
}

func inRepo(fn *ssa.Function) bool {
	if fn.Pkg != nil {
		return strings.HasPrefix(fn.Pkg.Pkg.Path(), repoModule)
	}
	return false
}

func smallBody(fn *ssa.Function, max int) bool {
	n := 0
	for _, b := range fn.Blocks {
		for _, in := range b.Instrs {
			switch in.(type) {
			case *ssa.Go, *ssa.Select, *ssa.Defer:
				return false
			case *ssa.DebugRef:
				continue
			}
			n++
		}
		for _, s := range b.Succs {
			if s.Dominates(b) {
				return false // loops need invariants
			}
		}
	}
	return n <= max
}
