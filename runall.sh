#!/bin/bash
# Runs every claimed property's check (default tier quick) and prints one line per property with its exit code.
cd "$(dirname "$0")"
tier="${1:-quick}"; shift
props="$@"
[ -z "$props" ] && props=$(python3 -c "import json;print(' '.join(sorted(set(c['property_id'] for c in json.load(open('MANIFEST.json'))['checks']))))")
bad=0
for p in $props; do
  out=$(./check $p $tier 2>&1); rc=$?
  echo "$p exit=$rc $(echo "$out" | grep '^property' | tail -1)"
  if [ $rc -ne 0 ]; then bad=1; echo "$out" | grep -E "VIOLATION|BROKEN|SPEC-ERROR|GENERATOR|failed obligation|MISSED" | head -8 | cut -c1-240; fi
done
exit $bad
