#!/usr/bin/env python3
"""Regenerates MANIFEST.json from the table below (kept as a script so the manifest stays consistent)."""
import json, subprocess

CLAIMS = {
 # id: (level category, level text, level_note, technique, design_ref)
}
NA = {
 # id: reason
}
exec(open('/verif/manifest_table.py').read())

props = [json.loads(l) for l in open('/verif/properties.jsonl')]
ids = [p['id'] for p in props]
checks = []
for i in ids:
    if i in CLAIMS:
        cat, text, note, tech, ref = CLAIMS[i]
        checks.append({
            "property_id": i,
            "quick_cmd": f"./check {i} quick",
            "thorough_cmd": f"./check {i} thorough",
            "evidence_file": f"/verif/evidence/{i}.json",
            "replay_cmd_template": "cat {path}",
            "engine": "cedarvc",
            "level_claimed": {"category": cat, "text": text, "design_ref": ref},
            "level_note": note,
            "technique": tech,
        })
na = [{"property_id": i, "reason": NA.get(i, "not yet brought under contract in this build; see DESIGN.md")} for i in ids if i not in CLAIMS]
hooks_commits = subprocess.run("git -C /repo log --format=%H --grep='^verif hook' ", shell=True, capture_output=True, text=True).stdout.split()
m = {
 "version": 1,
 "setup_cmd": "./setup.sh",
 "hooks": {
   "guard": "verif",
   "enable": "contracts are comment-only files <pkg>/verif_contracts.go behind `//go:build verif`; the verifier reads them by path (no build flag needed; `-tags verif` compiles them as empty files)",
   "baseline_off_cmd": "cd /repo && PATH=/opt/veriftools/go1.26.8/bin:$PATH GOFLAGS=-mod=mod GOPROXY=off GOSUMDB=off GOTOOLCHAIN=local go test -json -vet=off -count=1 -timeout 25m ./...",
   "source_commits": hooks_commits,
   "add_only": True,
 },
 "engines": [{"name": "cedarvc", "path": "/verif/cmd/cedarvc", "serves_properties": sorted(CLAIMS), "kind_free_text": "contract-based deductive verifier for Go written for this task: weakest-precondition style VC generation over go/ssa of /repo's working tree, contracts in //@ comments, obligations discharged by z3 4.8.12 / z3 5.1.0 / cvc5 1.0.3"}],
 "checks": checks,
 "not_applicable": na,
 "notes": "Every check re-loads /repo's working tree (go/packages + go/ssa) on each run; contracts live in /repo/<pkg>/verif_contracts.go (guarded, comment-only) and /verif/specs/*.spec (assumed contracts on dependencies).",
}
json.dump(m, open('/verif/MANIFEST.json', 'w'), indent=1)
print("claimed:", sorted(CLAIMS), "n/a:", [x['property_id'] for x in na])
