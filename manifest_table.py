PROOF_NOTE = ("Trusted: the cedarvc generator and the SMT solvers; assumed contracts in /verif/specs (crypto primitives uninterpreted, io/net/context stubs); "
              "int/int64 arithmetic assumed non-overflowing; receivers non-nil; sequential semantics only. Obligations that leave the baseline are reported even without a model (no-failing-input-found).")
CLAIMS["C12"] = ("proof",
  "Every obligation generated from the contracts of the AES-GCM send path (nonce = base IV with word0 + counter mod 2^32, IV sent iff counter 0, AAD layout, counter steps by one and refuses at 2^32-1, digests frozen) is discharged by an SMT solver for all inputs; the nonce-injectivity lemma closes 'no reuse'.",
  PROOF_NOTE + " An independent AES-GCM implementation opening the frames is not part of the proof (AEAD is uninterpreted).",
  "deductive verification: WP over go/ssa + SMT (z3/cvc5)", "DESIGN.md 4 (C12)")

CLAIMS["C01"] = ("proof",
  "Stream layer: every frame the sender emits is header(end,len)||payload with the exact length, a send that succeeds stays within the limit the receiver enforces (sender-accepted => receiver-accepted, sealing overhead included), the receiver rejects a well-read header only when it is out of limits, and a plaintext frame is delivered byte-identical; message-layer chunking obligations are added as they are brought under contract.",
  PROOF_NOTE + " The reliable-channel step of the round-trip (what the peer wrote is what this side reads) is an assumption, not an obligation.",
  "deductive verification: WP over go/ssa + SMT (z3/cvc5)", "DESIGN.md 4 (C01)")
CLAIMS["C02"] = ("proof",
  "On a keyed, encrypting stream every frame the receive functions accept went through a successful gcm.Open in that call, with the position nonce (base IV, word0 + counter), an AAD that contains the 5 header bytes just read (end flag and length authenticated), counters step only on success and errors return no data; proved for all inputs with the peer's bytes unconstrained.",
  PROOF_NOTE + " AES-GCM itself is an ideal AEAD by assumption; the in-order-prefix conclusion is a lemma over these contracts.",
  "deductive verification: WP over go/ssa + SMT (z3/cvc5)", "DESIGN.md 4 (C02)")
CLAIMS["C04"] = ("proof",
  "Every cleartext send and receive path (zero-length frames included) feeds the frame header and payload to the handshake digest exactly once while the digest is not frozen; digests are frozen once; the first sealed/opened frame's AAD is finalSend||finalRecv||header (mirrored on receipt).",
  PROOF_NOTE + " SHA-256 collision resistance and the AEAD are assumed; the digest is modelled by its update count, not byte-wise.",
  "deductive verification: WP over go/ssa + SMT (z3/cvc5)", "DESIGN.md 4 (C04)")

CLAIMS["C15"] = ("proof",
  "ExportCryptoState refuses unless every clean-boundary condition holds and accepts when all hold; the blob layout is proved byte by byte (magic, version, flag bits, key, IVs, counters, three length-prefixed trailers); NewStreamWithCryptoState rejects short / mis-tagged / wrong-version / truncated blobs, restores every crypto field from the blob into fresh storage with empty framing state and without regenerating IV or counters; the lemma export_import_inverse closes import(export(s)) = s on the crypto state.",
  PROOF_NOTE + " bytes.Buffer and encoding/binary.Write are assumed contracts (/verif/specs/buffer.spec). That the peer keeps accepting frames after a hand-off follows from equal crypto state plus the C12/C02 contracts (not re-proved end to end).",
  "deductive verification: WP over go/ssa + SMT (z3/cvc5)", "DESIGN.md 4 (C15)")

CLAIMS["C14"] = ("proof",
  "Typed values: PutInt appends exactly the 8 big-endian two's-complement bytes of the value (every width through the wrappers), GetInt/GetChar/GetDouble consume exactly 8/1/16 bytes of the unread view and return the decoded value of those bytes, ensureData never changes or consumes already-buffered bytes (so a decoded value cannot depend on where frame boundaries fall), doubles are written as trunc(frac*(2^31-1)) and the binary exponent and decoded as frac/(2^31-1)*2^exp; lemmas int_inverse and double_precision close decode(encode(v)) = v (ints) and |decode(encode(v)) - v| <= 2^e/(2^31-1) (doubles, over the reals).",
  PROOF_NOTE + " IEEE rounding, NaN and infinities are idealised (math.Frexp/Ldexp are uninterpreted over the reals); string content layout is proved at the consumption/termination level only.",
  "deductive verification: WP over go/ssa + SMT (z3/cvc5)", "DESIGN.md 4 (C14)")

CLAIMS["C09"] = ("proof",
  "The attribute filters return only attributes allowed by the opt-in / exclusion / peer-version rule (whole result, loop invariants); the flags handed to the filters are exactly (opted in and not excluded) and (that, or peer older than 9.9.0) as the statement prescribes; the version gate is the lexicographic comparison; in the emit loop an attribute is written plainly on a keyed, non-encrypting stream only if it is not private, and a secret is buffered and flushed only while the stream is encrypting, after the marker frame was flushed, with the crypto mode restored on every exit; every frame written while encrypting is sealed (refinement of *stream.Stream against the message-level interface).",
  PROOF_NOTE + " classad.IsPrivateAttribute* are uninterpreted predicates (their case-insensitivity is the dependency's); the attribute a formatted expression belongs to is tracked through an assumed provenance label on fmt.Sprintf.",
  "deductive verification: WP over go/ssa + SMT (z3/cvc5)", "DESIGN.md 4 (C09)")

CLAIMS["C17"] = ("proof",
  "Lock discipline as proof obligations: every read or write of SessionEntry.expiration/lastPeerVersion/inherited and of SessionCache.sessions/commandMap in every function of session_cache.go happens while the owning mutex is held (write lock for writes, read or write lock for reads; ghost lock state, obligations guarded_by:*), every lock taken is released on every exit and never taken twice, and the functional contracts of Store/Lookup/LookupNonExpired/MapCommand/LookupByCommand/Invalidate/InvalidateExpired/Clear hold from every cache state satisfying the invariant (so an invalidation removes the session and all its command routes in one critical section - no lost invalidation by interleaving at the granularity of critical sections); NewAuthenticator does not write the SecurityConfig it is given (frame obligation), which is what lets handshakes share one configuration.",
  PROOF_NOTE + " Data-race freedom follows from lock discipline by the usual argument (Go memory model: mutex-ordered accesses), which is not itself mechanised; schedules are not enumerated. Full-duplex use of a stream is covered by frames only: every send function writes only send-side fields and every receive function only receive-side fields once the handshake digests are frozen (frame and duplex obligations); that no send function reads a field a receive function writes is by inspection of the two assigns sets, not an obligation. Not covered by any contract: the rest of the handshake's use of the shared config beyond construction, ccb/listener.go.",
  "deductive verification: WP over go/ssa + SMT (z3/cvc5), ghost lock state", "DESIGN.md 4 (C17)")
