PROOF_NOTE = ("Trusted: the cedarvc generator and the SMT solvers; assumed contracts in /verif/specs (crypto primitives uninterpreted, io/net/context stubs); "
              "int/int64 arithmetic assumed non-overflowing; receivers non-nil; sequential semantics only. Obligations that leave the baseline are reported even without a model (no-failing-input-found).")
CLAIMS["C12"] = ("proof",
  "Every obligation generated from the contracts of the AES-GCM send path (nonce = base IV with word0 + counter mod 2^32, IV sent iff counter 0, AAD layout, counter steps by one and refuses at 2^32-1, digests frozen) is discharged by an SMT solver for all inputs; the nonce-injectivity lemma closes 'no reuse'.",
  PROOF_NOTE + " An independent AES-GCM implementation opening the frames is not part of the proof (AEAD is uninterpreted).",
  "deductive verification: WP over go/ssa + SMT (z3/cvc5)", "DESIGN.md 4 (C12)")
